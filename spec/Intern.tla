------------------------------- MODULE Intern -------------------------------
(***************************************************************************)
(* Interning of a CLVM tree (src/serde/intern.rs, property C24) and the    *)
(* node-identity based ObjectCache tree hash (src/serde/object_cache.rs,   *)
(* property C22).                                                          *)
(*                                                                         *)
(* Both work on node *identities* (NodePtr) of a source allocator, so the  *)
(* source is modelled as a heap: a sequence of nodes                        *)
(*     [a |-> bytes]   or   [f |-> i, r |-> j]   (i, j indices of the heap) *)
(* and a root index.  Sharing = several parents naming the same index.     *)
(* The tree *value* of a node is Unfold(heap, i).                          *)
(*                                                                         *)
(* Declarative meaning of interning (what C24 states):                     *)
(*   DistinctAtoms(t)  the set of atom byte strings occurring in t         *)
(*   DistinctPairs(t)  the set of pair sub-tree values occurring in t      *)
(* The machine IM (one step per iteration of the real loop, with its three *)
(* maps) must end with exactly one interned atom per element of            *)
(* DistinctAtoms and one interned pair per element of DistinctPairs, and   *)
(* the interned root must unfold to t  (InternRefines).                    *)
(***************************************************************************)
EXTENDS TreeHash, Integers, TLC

---------------------------------------------------------------------------
(* Source heap.                                                            *)

RECURSIVE Unfold(_, _)
Unfold(heap, i) ==
  IF IsAtom(heap[i]) THEN heap[i]
  ELSE [f |-> Unfold(heap, heap[i].f), r |-> Unfold(heap, heap[i].r)]

\* node indices reachable from i
RECURSIVE Reach(_, _)
Reach(heap, i) ==
  IF IsAtom(heap[i]) THEN {i} ELSE {i} \cup Reach(heap, heap[i].f) \cup Reach(heap, heap[i].r)

SrcAtoms(heap, root) == Cardinality({i \in Reach(heap, root) : IsAtom(heap[i])})
SrcPairs(heap, root) == Cardinality({i \in Reach(heap, root) : ~IsAtom(heap[i])})

\* a tree as a heap without any sharing (post-order, root last)
RECURSIVE Flat(_)
Flat(t) ==
  IF IsAtom(t) THEN << t >>
  ELSE LET L  == Flat(t.f)
           R  == Flat(t.r)
           nl == Len(L)
           Rs == [i \in 1..Len(R) |-> IF IsAtom(R[i]) THEN R[i]
                                      ELSE [f |-> R[i].f + nl, r |-> R[i].r + nl]]
       IN  L \o Rs \o << [f |-> nl, r |-> nl + Len(R)] >>

\* a tree as a maximally shared heap (hash-consing): [heap, idx]
IndexOf(heap, node) == CHOOSE i \in 1..Len(heap) : heap[i] = node
Cons(heap, node) ==
  IF \E i \in 1..Len(heap) : heap[i] = node
  THEN [heap |-> heap, idx |-> IndexOf(heap, node)]
  ELSE [heap |-> Append(heap, node), idx |-> Len(heap) + 1]

RECURSIVE ShareInto(_, _)
ShareInto(heap, t) ==
  IF IsAtom(t) THEN Cons(heap, t)
  ELSE LET L == ShareInto(heap, t.f)
           R == ShareInto(L.heap, t.r)
       IN  Cons(R.heap, [f |-> L.idx, r |-> R.idx])
MaxShared(t) == ShareInto(<< >>, t)

---------------------------------------------------------------------------
(* Declarative meaning.                                                    *)

RECURSIVE DistinctAtoms(_)
DistinctAtoms(t) == IF IsAtom(t) THEN {t.a} ELSE DistinctAtoms(t.f) \cup DistinctAtoms(t.r)

RECURSIVE DistinctPairs(_)
DistinctPairs(t) == IF IsAtom(t) THEN {} ELSE {t} \cup DistinctPairs(t.f) \cup DistinctPairs(t.r)

RECURSIVE AtomPositions(_)
AtomPositions(t) == IF IsAtom(t) THEN 1 ELSE AtomPositions(t.f) + AtomPositions(t.r)
PairPositions(t) == AtomPositions(t) - 1

---------------------------------------------------------------------------
(* The interned result.  A reference into the interned allocator is an     *)
(* integer: -k = k-th entry of `atoms`, +k = k-th entry of `pairs`         *)
(* (0 = dangling).  atoms: Seq(bytes); pairs: Seq([l |-> ref, r |-> ref]). *)

RefOk(na, np, ref) == (ref < 0 /\ -ref <= na) \/ (ref > 0 /\ ref <= np)

\* well formed and children before parents (the documented post-order): makes IVal total
WellFormed(atoms, pairs, root) ==
  /\ RefOk(Len(atoms), Len(pairs), root)
  /\ \A i \in 1..Len(pairs) : /\ RefOk(Len(atoms), i - 1, pairs[i].l)
                              /\ RefOk(Len(atoms), i - 1, pairs[i].r)

RECURSIVE IVal(_, _, _)
IVal(atoms, pairs, ref) ==
  IF ref < 0 THEN [a |-> atoms[-ref]]
  ELSE [f |-> IVal(atoms, pairs, pairs[ref].l), r |-> IVal(atoms, pairs, pairs[ref].r)]

Range(s) == {s[i] : i \in 1..Len(s)}
PairVals(atoms, pairs) == {IVal(atoms, pairs, i) : i \in 1..Len(pairs)}

\* The C24 clauses over an interned result for the source tree value t; each is named so
\* that a trace mismatch can say which one failed.
AtomsDistinct(atoms)        == Cardinality(Range(atoms)) = Len(atoms)
PairsDistinct(atoms, pairs) == Cardinality(PairVals(atoms, pairs)) = Len(pairs)
SameValue(atoms, pairs, root, t) == IVal(atoms, pairs, root) = t
AtomsMaximal(atoms, t)      == Len(atoms) = Cardinality(DistinctAtoms(t))
PairsMaximal(pairs, t)      == Len(pairs) = Cardinality(DistinctPairs(t))

\* Linear-time, exact formulations for big trees (the literal PairsDistinct / PairsMaximal unfold
\* every interned pair: quadratic).  For a WellFormed result (children before parents):
\*  (1) atoms pairwise distinct  =>  (pairs are pairwise distinct values <=> their <<l, r>> child
\*      references are pairwise distinct)            [induction over the post-order]
\*  (2) atoms distinct, pair values distinct, root unfolds to t  =>
\*      (Len(pairs) = |DistinctPairs(t)|  <=>  every listed pair is reachable from the root)
\*      and reachability = "the root is the last pair and every other pair is somebody's child".
\* MCHash checks Fast = literal over all small structures (ASSUME FastLemma).
PairKeys(pairs) == {<< pairs[i].l, pairs[i].r >> : i \in 1..Len(pairs)}
KeysDistinct(pairs) == Cardinality(PairKeys(pairs)) = Len(pairs)
PairsDistinctFast(atoms, pairs) ==
  IF AtomsDistinct(atoms) THEN KeysDistinct(pairs) ELSE PairsDistinct(atoms, pairs)
AllPairsReachable(pairs, root) ==
  LET np   == Len(pairs)
      refd == UNION {{pairs[j].l, pairs[j].r} : j \in 1..np}
  IN  np > 0 => (root = np /\ \A i \in 1..(np - 1) : i \in refd)
PairsMaximalFast(atoms, pairs, root, t) ==
  IF AtomsDistinct(atoms) /\ KeysDistinct(pairs) /\ SameValue(atoms, pairs, root, t)
  THEN AllPairsReachable(pairs, root)
  ELSE PairsMaximal(pairs, t)

\* the refinement: machine result = declarative result
InternRefines(atoms, pairs, root, t) ==
  /\ WellFormed(atoms, pairs, root)
  /\ SameValue(atoms, pairs, root, t)
  /\ Range(atoms) = DistinctAtoms(t)          /\ AtomsDistinct(atoms)
  /\ PairVals(atoms, pairs) = DistinctPairs(t) /\ PairsDistinct(atoms, pairs)
  /\ AtomsMaximal(atoms, t) /\ PairsMaximal(pairs, t)

---------------------------------------------------------------------------
(* IM: intern_tree_limited, one Step per loop iteration.                   *)
(*   stack   Vec<NodePtr> of source nodes                                  *)
(*   n2i     node_to_interned : source index -> ref                        *)
(*   a2i     atom_to_interned : bytes -> ref                               *)
(*   p2i     pair_to_interned : <<ref, ref>> -> ref                        *)
(*   atoms, pairs   the new allocator's content = the result lists         *)
(* (Allocator limits of the new allocator are not modelled: C24 is about   *)
(* successful interning.)                                                  *)

EmptyFn == [x \in {} |-> 0]

IMInit(root) == [stack |-> << root >>, n2i |-> EmptyFn, a2i |-> EmptyFn, p2i |-> EmptyFn,
                 atoms |-> << >>, pairs |-> << >>]
IMDone(s) == s.stack = << >>
IMRoot(s, root) == s.n2i[root]

IMStep(heap, s) ==
  LET n    == Len(s.stack)
      cur  == s.stack[n]
      rest == SubSeq(s.stack, 1, n - 1)
  IN  IF cur \in DOMAIN s.n2i THEN [s EXCEPT !.stack = rest]          \* already processed
      ELSE IF IsAtom(heap[cur])
      THEN LET b == heap[cur].a IN
           IF b \in DOMAIN s.a2i
           THEN [s EXCEPT !.stack = rest, !.n2i = @ @@ (cur :> s.a2i[b])]
           ELSE LET ref == -(Len(s.atoms) + 1) IN
                [s EXCEPT !.stack = rest, !.atoms = Append(@, b),
                          !.a2i = @ @@ (b :> ref), !.n2i = @ @@ (cur :> ref)]
      ELSE LET l  == heap[cur].f
               r  == heap[cur].r
               hl == l \in DOMAIN s.n2i
               hr == r \in DOMAIN s.n2i
           IN  IF hl /\ hr
               THEN LET key == << s.n2i[l], s.n2i[r] >> IN
                    IF key \in DOMAIN s.p2i
                    THEN [s EXCEPT !.stack = rest, !.n2i = @ @@ (cur :> s.p2i[key])]
                    ELSE LET ref == Len(s.pairs) + 1 IN
                         [s EXCEPT !.stack = rest, !.pairs = Append(@, [l |-> key[1], r |-> key[2]]),
                                   !.p2i = @ @@ (key :> ref), !.n2i = @ @@ (cur :> ref)]
               ELSE [s EXCEPT !.stack = rest \o << cur >>
                                  \o (IF hr THEN << >> ELSE << r >>)
                                  \o (IF hl THEN << >> ELSE << l >>)]

---------------------------------------------------------------------------
(* OM: ObjectCache<Bytes32>::calculate with f = treehash (no stop token).  *)
(*   list   obj_list : Vec<NodePtr>;  cache : source index -> hash          *)
(* f(node): atom -> its hash; pair -> the pair hash if both children are   *)
(* cached, else None, and then node, left, right are pushed.               *)

OMInit(root) == [list |-> << root >>, cache |-> EmptyFn]
OMDone(s) == s.list = << >>

OMStep(heap, s) ==
  LET n    == Len(s.list)
      node == s.list[n]
      rest == SubSeq(s.list, 1, n - 1)
  IN  IF node \in DOMAIN s.cache THEN [s EXCEPT !.list = rest]
      ELSE IF IsAtom(heap[node])
      THEN [list |-> rest, cache |-> s.cache @@ (node :> HashAtom(heap[node].a))]
      ELSE LET l == heap[node].f
               r == heap[node].r
           IN  IF l \in DOMAIN s.cache /\ r \in DOMAIN s.cache
               THEN [list |-> rest, cache |-> s.cache @@ (node :> HashPair(s.cache[l], s.cache[r]))]
               ELSE [list |-> rest \o << node, l, r >>, cache |-> s.cache]
=============================================================================
