---------------------------- MODULE ProgUniverse ----------------------------
(***************************************************************************)
(* The bounded universe of (program, environment) pairs shared by MCInterp *)
(* and MCRefEval: the sequence UniverseSeq (ClassicIdx = its classic part). *)
(* Every element is [p |-> program, e |-> environment, k |-> class name];  *)
(* the class is only used for coverage counts.                             *)
(*                                                                         *)
(* Grammar (values are tiny on purpose: pure-TLA+ bignum arithmetic):      *)
(*   leaves   (q . v) for v in a boundary alphabet; environment paths      *)
(*   depth 1  (op a1 .. an) for EVERY non-cryptographic operator of        *)
(*            Ops.tla, n around the operator's valid arity (also wrong),   *)
(*            ai leaves (the leaf alphabet shrinks as n grows)             *)
(*   apply    (a ..) with 0..3 arguments                                   *)
(*   head is a pair   ((X) . args) and its malformed variants              *)
(*   improper operand lists                                                *)
(*   unknown opcodes  empty, 00, unassigned one-byte, the 0x40/0x80/0xc0   *)
(*            cost classes, 2..5 bytes with multiplier, ffff-reserved,     *)
(*            6 bytes                                                      *)
(*   guards   (softfork (q . cost) (q . ext) (q . prog) (q . env)), cost   *)
(*            exactly right / +-1 / zero / huge / non-canonical / not a    *)
(*            u64 / negative / a pair, ext 0 1 2 and malformed, missing    *)
(*            and surplus arguments, nested one level                      *)
(*   depth 2  operators over RandomSubset samples of all of the above      *)
(*            (TLC -seed; sizes by IOEnv.TIER)                             *)
(* The "exactly right" declared cost of a guard is computed with the       *)
(* reference evaluator (RefEval!Eval): guard cost + cost of the guarded    *)
(* program.  This only CHOOSES interesting inputs; no invariant depends on *)
(* it (MCInterp counts how many guards complete, as a coverage check).     *)
(***************************************************************************)
EXTENDS RefEval, Randomization, IOUtils, TLC, SequencesExt

Tier == IF "TIER" \in DOMAIN IOEnv THEN IOEnv.TIER ELSE "quick"
Thorough == Tier = "thorough"
\* a tiny universe for smoke tests of the models themselves
Smoke == Tier = "smoke"

Q(v) == P(One, v)
L(s) == ListOf(s)
Op(o) == A(<< o >>)

---------------------------------------------------------------------------
(* environments *)
E1 == P(P(A(<< 1 >>), A(<< 2 >>)), P(A(<< 3 >>), A(<< 4 >>)))      \* ((1 . 2) 3 . 4)
E2 == A(<< 128 >>)                                               \* an atom: every proper path fails
E3 == L(<< A(<< 20 >>), A(<< 30 >>) >>)                          \* (20 30)

---------------------------------------------------------------------------
(* leaves *)
V5 == A(<< 1, 2, 3, 4, 5 >>)
VList == L(<< A(<< 7 >>), A(<< 8 >>) >>)
V32 == A([i \in 1..32 |-> i])

QNil == Q(Nil)            Q01 == Q(A(<< 1 >>))        Q02 == Q(A(<< 2 >>))
Q80 == Q(A(<< 128 >>))    Q00 == Q(A(<< 0 >>))        Q0001 == Q(A(<< 0, 1 >>))
QFFFF == Q(A(<< 255, 255 >>))    QV5 == Q(V5)         QList == Q(VList)
P01 == A(<< 1 >>)   P02 == A(<< 2 >>)   P03 == A(<< 3 >>)   P05 == A(<< 5 >>)   P06 == A(<< 6 >>)
P07 == A(<< 7 >>)   P0002 == A(<< 0, 2 >>)   PEmpty == Nil   P00 == A(<< 0 >>)

LQuoted == {QNil, Q01, Q02, Q80, Q00, Q0001, QFFFF, QV5, QList}
LPaths == {P01, P02, P03, P05, P06, P07, P0002, PEmpty, P00}
LFull == LQuoted \cup LPaths                                            \* 18
LMed == {QNil, Q01, Q80, Q0001, QFFFF, QV5, QList, P01, P02, P05, P0002, P00}   \* 12
LSmall == {QNil, Q02, Q80, QV5, P02, P05}                               \* 6
LTiny == {Q01, QFFFF, P02}                                              \* 3

L1 == IF Smoke THEN LSmall ELSE LFull
L2 == IF Smoke THEN LTiny ELSE LFull
L3 == IF Smoke THEN LTiny ELSE IF Thorough THEN LMed ELSE LSmall
L4 == LTiny

\* argument tuples of length n over the rich alphabets (used for the arities an operator accepts) ...
Args(n) == CASE n = 0 -> {<< >>}
             [] n = 1 -> {<< a >> : a \in L1}
             [] n = 2 -> {<< a, b >> : a \in L2, b \in L2}
             [] n = 3 -> {<< a, b, c >> : a \in L3, b \in L3, c \in L3}
             [] n = 4 -> {<< a, b, c, d >> : a \in L4, b \in L4, c \in L4, d \in L4}
\* ... and over the tiny alphabet (used for the WRONG arities: the arguments are evaluated, then the call fails)
ArgsTiny(n) == CASE n = 0 -> {<< >>}
                 [] n = 1 -> {<< a >> : a \in LTiny}
                 [] n = 2 -> {<< a, b >> : a \in LTiny, b \in LTiny}
                 [] n = 3 -> {<< a, b, c >> : a \in LTiny, b \in LTiny, c \in LTiny}
                 [] n = 4 -> {<< a, b, c, d >> : a \in LTiny, b \in LTiny, c \in LTiny, d \in LTiny}

Call(o, args) == P(Op(o), L(args))
U(p, e, k) == [p |-> p, e |-> e, k |-> k]

---------------------------------------------------------------------------
(* depth 1: every non-cryptographic operator of Ops.tla *)
Unary == {5, 6, 7, 13, 27, 32, 63}
Binary == {4, 9, 10, 19, 20, 21, 22, 23, 61}
Ternary == {3, 60}
Variadic == {11, 14, 16, 17, 18, 24, 25, 26, 33, 34}
ClassicOpcodes == ClassicOps                        \* RefEval
\* arities the operator accepts, and the wrong arities next to them
Valid(o) == IF o \in Unary THEN {1}
            ELSE IF o \in Binary THEN {2}
            ELSE IF o \in Ternary THEN {3}
            ELSE IF o = 12 THEN {2, 3}
            ELSE IF o = 8 THEN {0, 1}
            ELSE {0, 1, 2, 3}
Wrong(o) == IF o \in Unary THEN {0, 2}
            ELSE IF o \in Binary THEN {1, 3}
            ELSE IF o \in Ternary THEN {2, 4}
            ELSE IF o = 12 THEN {1, 4}
            ELSE IF o = 8 THEN {2}
            ELSE {}

OpClass(o) == IF o \in ClassicOpcodes THEN "op" ELSE "newop"
D1Ops == Unary \cup Binary \cup Ternary \cup Variadic \cup {8, 12}

\* TLC evaluates  S \cup T  and  UNION {S, T}  of enumerated sets with a LINEAR membership search per element
\* (measured: the 10^5-element universe did not finish in 8 minutes).  The universe is therefore a SEQUENCE:
\* every component is one set comprehension (no membership tests), turned into a sequence (one sort) and the
\* sequences are concatenated.  A program that occurs in two components is simply explored twice.
D1V(n) == {U(Call(o, a), E1, OpClass(o)) : o \in {o \in D1Ops : n \in Valid(o)}, a \in Args(n)}
D1W(n) == {U(Call(o, a), E1, OpClass(o)) : o \in {o \in D1Ops : n \in Wrong(o)}, a \in ArgsTiny(n)}
D1Seq == SetToSeq(D1V(0)) \o SetToSeq(D1V(1)) \o SetToSeq(D1V(2)) \o SetToSeq(D1V(3))
           \o SetToSeq(D1W(0)) \o SetToSeq(D1W(1)) \o SetToSeq(D1W(2)) \o SetToSeq(D1W(3)) \o SetToSeq(D1W(4))

\* coinid needs 32-byte operands
CoinidArgs == {Q(V32), QV5, P02}
Amounts == {QNil, Q01, Q00, Q0001, Q80, QV5, Q(A(<< 0, 255, 255, 255, 255, 255, 255, 255, 255 >>)),
            Q(A(<< 1, 0, 0, 0, 0, 0, 0, 0, 0 >>)), P02}
Coinid == {U(Call(48, << a, b, c >>), E1, "newop") : a \in CoinidArgs, b \in CoinidArgs, c \in Amounts}
            \cup {U(Call(48, << Q(V32), Q(V32) >>), E1, "newop"),
                  U(Call(48, << Q(V32), Q(V32), Q01, Q01 >>), E1, "newop")}

\* leaves on their own and unary operators also in the environments where paths fail / differ
Leaves == {U(p, e, "leaf") : p \in LFull \cup {A(<< 11 >>), A(<< 255 >>), A(<< 1, 0 >>)}, e \in {E1, E2, E3}}
D1Env == {U(Call(o, << a >>), E2, "op") : o \in {5, 7, 16, 4}, a \in LPaths \cup {Q01}}

---------------------------------------------------------------------------
(* apply *)
InnerProgs == {P02, Nil, Q(V5), Call(16, << P02, P05 >>), Call(8, << >>), P(P(Op(16), Nil), L(<< One, A(<< 2 >>) >>)),
               P(Op(16), A(<< 5 >>))}
ApplyX == {Q(p) : p \in InnerProgs} \cup {P02, P05}
ApplyY == {P01, Q(E3), QNil, P02}
Apply == {U(Call(2, a), E1, "apply") :
            a \in {<< >>} \cup {<< x >> : x \in ApplyX} \cup {<< x, y >> : x \in ApplyX, y \in ApplyY}
                  \cup {<< x, y, Q01 >> : x \in {Q(P02)}, y \in ApplyY}}

---------------------------------------------------------------------------
(* the head of the program is a pair: ((X) . args) and malformed variants; args are NOT evaluated *)
HeadX == {Op(16), Op(4), Op(5), Op(2), Op(1), Op(36), Op(128), Nil, Op(8)}
RawArgs == {Nil, L(<< A(<< 1 >>), A(<< 2 >>) >>), L(<< P(One, A(<< 7 >>)), One >>), L(<< P(A(<< 1 >>), A(<< 2 >>)) >>),
            P(A(<< 1 >>), A(<< 5 >>)), L(<< A(<< 0, 161 >>), Nil, Q01, Nil >>), L(<< A(<< 0, 160 >>), Nil, Q01, Nil >>)}
HeadForms(x) == {P(x, Nil), P(x, A(<< 5 >>)), P(x, P(x, Nil)), P(P(x, Nil), Nil), P(x, P(Nil, A(<< 5 >>)))}
HeadPair == {U(P(h, r), E1, "headpair") : h \in UNION {HeadForms(x) : x \in HeadX}, r \in RawArgs}

---------------------------------------------------------------------------
(* improper operand lists *)
Improper == {U(P(Op(o), t), E1, "improper") :
               o \in {16, 4, 5, 2, 36, 128, 1, 8},
               t \in {A(<< 5 >>), P(Q01, A(<< 5 >>)), P(Q01, P(Q02, A(<< 1 >>))), P(P02, A(<< 128 >>))}}

---------------------------------------------------------------------------
(* unknown opcodes *)
UnkOps == {<< >>, << 0 >>, << 15 >>, << 28 >>, << 31 >>, << 35 >>, << 37 >>, << 47 >>, << 62 >>, << 64 >>, << 65 >>,
           << 127 >>, << 128 >>, << 191 >>, << 192 >>, << 255 >>,
           << 0, 16 >>, << 0, 1 >>, << 1, 64 >>, << 2, 128 >>, << 255, 192 >>, << 255, 255 >>, << 255, 255, 1 >>,
           << 1, 0, 65 >>, << 0, 255, 0 >>, << 0, 0, 1, 128 >>, << 19, 214, 31, 1 >>, << 127, 255, 255, 63 >>,
           << 1, 0, 0, 0, 64 >>, << 0, 0, 0, 1, 193 >>, << 255, 255, 0, 0, 0 >>, << 1, 2, 3, 4, 5, 6 >>,
           << 0, 0, 0, 0, 0, 1 >>}
UnkArgs == {<< >>} \cup {<< a >> : a \in LTiny \cup {QV5, QNil}}
             \cup {<< a, b >> : a \in LTiny \cup {QV5}, b \in LTiny} \cup {<< Q01, QV5, Q0001 >>, << Q01, Q01, P02 >>}
Unknown == {U(P(A(o), L(a)), E1, "unknown") : o \in UnkOps, a \in UnkArgs}

---------------------------------------------------------------------------
(* softfork guards *)
\* the atom that denotes the non-negative integer n (BigInt Nat), minimal encoding
NatAtom(n) == A(ZToAtom(Z(FALSE, n)))

\* cost of evaluating p in e, by the reference evaluator (0 when it does not succeed)
InnerCost(p, e) == LET r == Eval(p, e, << >>, U64Max) IN IF r.st = "ok" THEN r.cost ELSE N(60)
RightCost(p, e) == NAdd(N(RGuardCost), InnerCost(p, e))

Guard(cost, ext, p, e) == Call(36, << Q(cost), Q(ext), Q(p), Q(e) >>)

DeclaredKinds == {"right", "plus1", "minus1", "zero", "huge63", "huge64", "noncanon"}
Declared(kind, p, e) ==
  LET r == RightCost(p, e)
  IN  CASE kind = "right" -> NatAtom(r)
        [] kind = "plus1" -> NatAtom(NAddI(r, 1))
        [] kind = "minus1" -> NatAtom(NSub(r, << 1 >>))
        [] kind = "zero" -> Nil
        [] kind = "huge63" -> A(<< 127, 255, 255, 255, 255, 255, 255, 255 >>)
        [] kind = "huge64" -> A(<< 0, 255, 255, 255, 255, 255, 255, 255, 255 >>)
        [] kind = "noncanon" -> A(<< 0 >> \o NatAtom(r).a)
        [] kind = "over64" -> A(<< 1, 0, 0, 0, 0, 0, 0, 0, 0 >>)
        [] kind = "negative" -> A(<< 128 >>)
        [] kind = "pair" -> P(One, One)
        [] kind = "noncanon0" -> A(<< 0 >>)

GuardedProgs == {Q01, Call(16, << Q01, Q02 >>), P02, Call(8, << >>), Call(128, << Q01 >>), Call(62, << Q01 >>),
                 Call(9, << Q01, P(One, P(One, One)) >>)}
GuardedEnvs == {Nil, P(A(<< 9 >>), A(<< 10 >>))}
Exts == {Nil, A(<< 1 >>), A(<< 2 >>)}
OddExts == {A(<< 0, 1 >>), A(<< 0 >>), A(<< 1, 0, 0, 0, 0 >>), A(<< 128 >>), P(One, One), A(<< 0, 255, 255, 255, 255 >>)}

Guards1 == {Guard(Declared(k, p, e), x, p, e) : k \in DeclaredKinds, x \in Exts, p \in GuardedProgs, e \in GuardedEnvs}
Guards2 == {Guard(Declared(k, p, Nil), x, p, Nil) :
              k \in {"over64", "negative", "pair", "noncanon0"}, x \in Exts, p \in {Q01, P02}}
Guards3 == {Guard(Declared(k, p, Nil), x, p, Nil) : k \in {"right", "plus1"}, x \in OddExts, p \in {Q01, Call(8, << >>)}}
\* missing / surplus arguments
GuardArity == {Call(36, a) : a \in {<< >>, << Q(NatAtom(N(160))) >>, << QNil >>, << Q(NatAtom(N(160))), QNil >>,
                                    << Q(NatAtom(N(160))), QNil, Q(Q01) >>,
                                    << Q(NatAtom(N(160))), QNil, Q(Q01), QNil, QNil >>,
                                    << P02, QNil, Q(Q01), QNil >>, << Q(NatAtom(N(160))), Q(A(<< 2 >>)), Q(Q01) >>}}
\* nested one level
InnerGuards == {Guard(Declared(k, p, Nil), x, p, Nil) : k \in {"right", "plus1"}, x \in Exts, p \in {Q01, Call(16, << Q01, Q02 >>)}}
Nested == {Guard(Declared(k, g, Nil), x, g, Nil) : k \in {"right", "minus1", "plus1", "zero"}, x \in Exts, g \in InnerGuards}
\* guards in argument position
GuardArg == {Call(4, << g, Q01 >>) : g \in {Guard(Declared(k, p, Nil), x, p, Nil) :
                                              k \in {"right", "plus1", "huge63"}, x \in Exts, p \in {Q01, P02}}}
              \cup {Call(4, << g, g >>) : g \in {Guard(Declared("right", Q01, Nil), x, Q01, Nil) : x \in Exts}}

GuardProgs == UNION {Guards1, Guards2, Guards3, GuardArity, Nested, GuardArg}
GuardsU == {U(p, E1, "guard") : p \in GuardProgs}

---------------------------------------------------------------------------
(* depth 2 *)
Progs(q) == [i \in 1..Len(q) |-> q[i].p]
PoolSeq == Progs(D1Seq \o SetToSeq(Apply) \o SetToSeq(HeadPair) \o SetToSeq(Unknown) \o SetToSeq(GuardsU) \o SetToSeq(Improper))
Sample(n) == {PoolSeq[i] : i \in RandomSubset(n, 1..Len(PoolSeq))}

N1 == IF Smoke THEN 6 ELSE IF Thorough THEN 1000 ELSE 80
N2 == IF Smoke THEN 3 ELSE IF Thorough THEN 60 ELSE 14
N3 == IF Smoke THEN 2 ELSE IF Thorough THEN 20 ELSE 5

RA == Sample(N1)
RB == Sample(N2)
RC == Sample(N3) \cup LTiny

D2Seq ==
     SetToSeq({U(Call(o, << x >>), E1, "depth2") : o \in Unary \cup {16, 8, 11}, x \in RA})
  \o SetToSeq({U(Call(o, << x, y >>), E1, "depth2") : o \in Binary \cup Variadic \cup {3, 12}, x \in RB, y \in RC})
  \o SetToSeq({U(Call(o, << y, x >>), E1, "depth2") : o \in {4, 16, 17, 19, 12}, x \in RB, y \in RC})
  \o SetToSeq({U(Call(3, << c, x, y >>), E1, "depth2") : c \in {QNil, Q01, P02}, x \in RC, y \in RC})
  \o SetToSeq({U(Call(2, << Q(x), P01 >>), E1, "depth2") : x \in RA})
  \o SetToSeq({U(Guard(Declared(k, x, Nil), ext, x, Nil), E1, "depth2") : k \in {"right", "plus1"}, ext \in {Nil, A(<< 2 >>)}, x \in RB})
  \* guards around sampled programs, declared cost exactly right, in an environment where the paths resolve
  \o SetToSeq({U(Guard(Declared("right", x, E1), ext, x, E1), E1, "depth2") : ext \in {Nil, A(<< 1 >>)}, x \in RA})
  \o SetToSeq({U(Call(4, << Guard(Declared("right", x, E1), Nil, x, E1), P01 >>), E1, "depth2") : x \in RB})

UniverseSeq == D1Seq \o SetToSeq(Coinid) \o SetToSeq(Leaves) \o SetToSeq(D1Env) \o SetToSeq(Apply) \o SetToSeq(HeadPair)
                 \o SetToSeq(Improper) \o SetToSeq(Unknown) \o SetToSeq(GuardsU) \o D2Seq

\* does the program mention anything outside the classic operator set (for MCRefEval)?
RECURSIVE Atoms(_)
Atoms(t) == IF IsAtom(t) THEN {t.a} ELSE Atoms(t.f) \cup Atoms(t.r)
LaterOpcodeAtoms == {<< o >> : o \in {29, 30} \cup (48..65)} \cup {Secp256k1Op, Secp256r1Op}
\* conservative: an atom that could be dispatched as a later operator occurs anywhere in the program
ClassicOnly(x) == Atoms(x.p) \cap LaterOpcodeAtoms = {}
\* (a set of indices: TLC does not cache a constant definition that passes an operator to SelectSeq - measured)
ClassicIdx == {i \in 1..Len(UniverseSeq) : ClassicOnly(UniverseSeq[i])}
=============================================================================
