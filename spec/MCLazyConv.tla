---------------------------- MODULE MCLazyConv ----------------------------
(* Bounded model of clvm_tree_to_lazy_node (LazyConv.tla) for C27.           *)
(*   every tree with at most MaxLeaves leaves over the atoms 0x41, 0x42 is   *)
(*   an initial state; every choice of free addresses for new child objects  *)
(*   is explored.                                                            *)
(* Configurations (one .cfg each):                                           *)
(*   MCLazyConv_bug    fresh children, code as written, INVARIANT Correct:   *)
(*                     TLC must find the address-reuse counterexample (F1)   *)
(*   MCLazyConv_cases  the same model without the invariant; one CASE line   *)
(*                     per (tree, correct?) terminal state, replayed into    *)
(*                     the wheel by the py engine                            *)
(*   MCLazyConv_fix    fresh children, visited objects kept alive: Correct   *)
(*   MCLazyConv_cached cached children (Program / CLVMTree / tuples), code   *)
(*                     as written: Correct                                   *)
EXTENDS LazyConv, TLC, Json, IOUtils

CONSTANT MaxLeaves

Atoms == {[a |-> << 65 >>], [a |-> << 66 >>]}

RECURSIVE TreesWith(_)
TreesWith(n) ==       \* trees with exactly n leaves
  IF n = 1 THEN Atoms
  ELSE UNION {{Pair(x, y) : x \in TreesWith(k), y \in TreesWith(n - k)} : k \in 1..(n - 1)}

AllTrees == UNION {TreesWith(n) : n \in 1..MaxLeaves}

EmitCase ==
  pc = "done" => PrintT(<< "CASE", ToJson([tree |-> src, correct |-> result = src, res |-> result]) >>)
=============================================================================
