------------------------------ MODULE RefEval ------------------------------
(***************************************************************************)
(* An independent BIG-STEP reference evaluator for property C01: "the      *)
(* interpreter agrees with the historical reference implementation on the  *)
(* classic operator set, with named adapters".                             *)
(*                                                                         *)
(*   Eval(prog, env, c, lim)                                               *)
(*                                                                         *)
(* is the classic recursive definition of CLVM evaluation                  *)
(*   - an atom is a path into the environment,                             *)
(*   - (q . x) is x,                                                       *)
(*   - (op a1 .. an) evaluates a1..an and applies op to the list of results *)
(*   - ((X) . args) applies X to the UNEVALUATED args,                     *)
(*   - (a p e) evaluates (the value of) p in (the value of) e,             *)
(* with the published cost constants.  There is no operation stack, no     *)
(* value stack and no step relation: the operator position is inspected,   *)
(* the argument list is evaluated by structural recursion, the operator is *)
(* applied.  It shares with Interp.tla only the operators' own semantics   *)
(* (Ops.tla: Defined / OpUnknown, called with an unlimited budget) and the *)
(* data modules (Sexp, BigInt); quote, apply, path lookup, ((X) . args),   *)
(* the nil-terminator rule and the softfork guard are formulated here on   *)
(* their own.                                                              *)
(*                                                                         *)
(* `c` is the running cost before the evaluation (a BigInt Nat), `lim` the *)
(* cost limit in force (2^64-1 at top level, the expected cost of the      *)
(* innermost enclosing guard inside one).  The running cost is threaded    *)
(* through (arguments are evaluated last to first, as every CLVM           *)
(* implementation does) because two rules look at it: a softfork's         *)
(* declared cost must not exceed what is left (lim - c), and a guard       *)
(* demands that the cost at its end is exactly c_enter + declared.         *)
(* Everything else is budget-free: a run whose cost would exceed the limit *)
(* is rejected once, at the end (RefOutcome) or by the guard's equality.   *)
(*                                                                         *)
(* Scope: opcodes 1-36 without 29/30, default flags, unlimited budget.     *)
(* Opcodes 29/30 (BLS) and the one-byte opcodes 48..65 and the two 4-byte  *)
(* secp opcodes (operators added after the reference) are outside the      *)
(* compared set: Eval ABSTAINS on them.                                    *)
(*                                                                         *)
(* NAMED ADAPTERS (consensus changes since the reference; the list is      *)
(* closed, see DESIGN.md C01):                                             *)
(*   Adapter_SoftforkGuard      opcode 36: the reference charged its first *)
(*        argument and returned nil.  Now a KNOWN extension evaluates the  *)
(*        guarded program, adds the guard cost and demands the declared    *)
(*        cost exactly; unknown extension / malformed arguments keep the   *)
(*        reference behaviour (nil + declared cost) in lenient mode.       *)
(*   Adapter_SoftforkCostIsU64  the declared cost is a positive integer of *)
(*        at most 8 significant bytes that fits the remaining budget.      *)
(*   Adapter_FloorDivNegative   `/` and divmod floor toward minus infinity *)
(*        for negative operands: this is inside Ops.tla (OpDiv, OpDivmod   *)
(*        use ZDivModFloor); named here only.                              *)
(*   Adapter_UnknownOpWrap      the cost of an unknown operator is the     *)
(*        product base * multiplier reduced mod 2^64 before the 2^32 cap   *)
(*        (finding F4) = Ops.tla's OpUnknown (pre-hard-fork).              *)
(*   Adapter_ResourceLimits     atom/pair/heap/stack caps: not reachable   *)
(*        in the bounded universe, no definition needed.                   *)
(* plus one point where I could not confirm the reference (no Python clvm  *)
(* package in this sandbox), kept as a switch:                             *)
(*   Adapter_InnerListTerminator  in ((X . t) . args) the implementation   *)
(*        ignores the terminator t of the inner one-element list           *)
(*        (get_args::<1>); as far as I remember the reference demanded     *)
(*        t = nil ("in ((X)...) syntax X must be lone atom").  TRUE =      *)
(*        follow the implementation.  With FALSE MCRefEval reports exactly *)
(*        the programs ((X . t) ..) with a non-nil atom t.                 *)
(***************************************************************************)
EXTENDS Ops

Adapter_InnerListTerminator == TRUE

RQuoteCost == 20
RApplyCost == 90
ROpCost == 1
RGuardCost == 140
RPathBase == 40
RPathPerLeg == 4
RPathPerZeroByte == 4

ROk(val, cost) == [st |-> "ok", val |-> val, cost |-> cost]
RErr(kind) == [st |-> "err", kind |-> kind]
RAbstain(why) == [st |-> "abstain", why |-> why]

---------------------------------------------------------------------------
(* Path lookup, the classic definition over the NUMBER the atom denotes:   *)
(*   lookup(1, e) = e ;  lookup(2n, e) = lookup(n, first e) ;              *)
(*   lookup(2n+1, e) = lookup(n, rest e)                                   *)
(* i.e. the bits below the leading 1 are consumed from the least           *)
(* significant end.  Cost: 40 + 4 per leading zero byte + 4 per node       *)
(* visited (the root counts).                                              *)

RECURSIVE RLeadingZeros(_)
RLeadingZeros(b) == IF b = << >> \/ b[1] # 0 THEN 0 ELSE 1 + RLeadingZeros(Tail(b))

RECURSIVE RLookup(_, _, _, _)
\* n: the path number (Nat), k: index of the next bit to consume, top: index of the leading 1
RLookup(n, k, top, e) ==
  IF k = top THEN [ok |-> TRUE, val |-> e]
  ELSE IF IsAtom(e) THEN [ok |-> FALSE]
  ELSE RLookup(n, k + 1, top, IF NBit(n, k) = 1 THEN e.r ELSE e.f)

RPath(bytes, env, c) ==
  LET z == RLeadingZeros(bytes)
      n == NFromBE(bytes)
      base == RPathBase + RPathPerLeg + RPathPerZeroByte * z
  IN  IF n = << >> THEN ROk(Nil, NAdd(c, N(base)))
      ELSE LET top == NBits(n) - 1
               r == RLookup(n, 0, top, env)
           IN  IF r.ok THEN ROk(r.val, NAdd(c, N(base + RPathPerLeg * top)))
               ELSE RErr("PathIntoAtom")

---------------------------------------------------------------------------
(* the operator table of the compared set *)

ClassicOps == {3,4,5,6,7,8,9,10,11,12,13,14,16,17,18,19,20,21,22,23,24,25,26,27,32,33,34}
LaterOps == (48..65)                      \* assigned after the reference: outside the compared set

\* the integer a one-byte-or-longer operator atom denotes when it is a minimal encoding, else -1
ROpcode(b) == IF IsCanonicalSmall(b) THEN SmallValue(b) ELSE -1

ROperator(opb, args) ==
  LET o == ROpcode(opb)
  IN  IF Len(opb) = 1 /\ o \in ClassicOps THEN Defined(o, args, U64Max, {})
      ELSE IF Len(opb) = 1 /\ o \in {29, 30} THEN Abstain("BLS operator")
      ELSE IF Len(opb) = 1 /\ o \in LaterOps THEN Abstain("operator outside the classic set")
      ELSE IF opb \in {Secp256k1Op, Secp256r1Op} THEN Abstain("operator outside the classic set")
      ELSE OpUnknown(opb, args, U64Max, {})          \* Adapter_UnknownOpWrap

---------------------------------------------------------------------------
(* Adapter_SoftforkCostIsU64: a non-negative integer with at most 8 (`size`) *)
(* significant bytes; redundant leading zero bytes are tolerated (default   *)
(* flags: no CANONICAL_INTS)                                                *)
RUint(t, size) ==
  IF IsPair(t) THEN [ok |-> FALSE]
  ELSE IF t.a # << >> /\ t.a[1] >= 128 THEN [ok |-> FALSE]
  ELSE LET v == NFromBE(t.a) IN IF Len(v) > size THEN [ok |-> FALSE] ELSE [ok |-> TRUE, v |-> v]

KnownExtension(v) == v = << >> \/ v = << 1 >>           \* 0 (BLS), 1 (keccak)

RECURSIVE RProper(_)
RProper(t) == IF IsAtom(t) THEN t.a = << >> ELSE RProper(t.r)
RECURSIVE RLen(_)
RLen(t) == IF IsAtom(t) THEN 0 ELSE 1 + RLen(t.r)
RECURSIVE RNth(_, _)
RNth(t, i) == IF i = 1 THEN t.f ELSE RNth(t.r, i - 1)

---------------------------------------------------------------------------
RECURSIVE Eval(_, _, _, _), EvalList(_, _, _, _), RApply(_, _, _, _)

\* evaluated argument list: the tail first, then the head (last argument first)
EvalList(l, env, c, lim) ==
  IF IsAtom(l) THEN ROk(Nil, c)
  ELSE LET t == EvalList(l.r, env, c, lim)
       IN  IF t.st # "ok" THEN t
           ELSE LET h == Eval(l.f, env, t.cost, lim)
                IN  IF h.st # "ok" THEN h ELSE ROk(P(h.val, t.val), h.cost)

\* Adapter_SoftforkGuard
Adapter_SoftforkGuard(args, c, lim) ==
  IF IsAtom(args) THEN RErr("InvalidOpArg")
  ELSE LET d == RUint(args.f, 8)                         \* Adapter_SoftforkCostIsU64
       IN  IF ~d.ok THEN RErr("InvalidOpArg")
           ELSE IF NGt(c, lim) THEN RErr("CostExceeded")
           ELSE IF d.v = << >> \/ NGt(d.v, NSub(lim, c)) THEN RErr("CostExceeded")
           ELSE LET ext == IF RLen(args) = 4 THEN RUint(RNth(args, 2), 4) ELSE [ok |-> FALSE]
                IN  IF ~(ext.ok /\ KnownExtension(ext.v))
                    THEN ROk(Nil, NAdd(c, d.v))          \* the reference's softfork: nil + declared cost
                    ELSE LET expected == NAdd(c, d.v)
                             r == Eval(RNth(args, 3), RNth(args, 4), NAdd(c, N(RGuardCost)), expected)
                         IN  IF r.st # "ok" THEN r
                             ELSE IF r.cost # expected THEN RErr("SoftforkCostMismatch")
                             ELSE ROk(Nil, r.cost)

\* apply operator atom `opr` to the argument list `args` (values)
RApply(opr, args, c, lim) ==
  IF opr.a = << 2 >>
  THEN IF RLen(args) # 2 THEN RErr("InvalidOpArg")
       ELSE Eval(RNth(args, 1), RNth(args, 2), NAdd(c, N(RApplyCost)), lim)
  ELSE IF opr.a = << 36 >> THEN Adapter_SoftforkGuard(args, c, lim)
  ELSE LET r == ROperator(opr.a, args)
       IN  IF r.st = "ok" THEN ROk(r.val, NAdd(c, r.cost))
           ELSE IF r.st = "err" THEN RErr(r.kind)
           ELSE RAbstain(r.why)

Eval(prog, env, c, lim) ==
  IF IsAtom(prog) THEN RPath(prog.a, env, c)
  ELSE LET head == prog.f
           rest == prog.r
       IN  IF IsPair(head)
           THEN \* ((X) . args): X applied to the unevaluated args
                IF IsPair(head.f) THEN RErr("InvalidOpArg")
                ELSE IF IsPair(head.r) THEN RErr("InvalidOpArg")
                ELSE IF ~Adapter_InnerListTerminator /\ head.r.a # << >> THEN RErr("InvalidOpArg")
                ELSE RApply(head.f, rest, NAdd(c, N(RApplyCost)), lim)
           ELSE IF head.a = << 1 >> THEN ROk(rest, NAdd(c, N(RQuoteCost)))
           ELSE IF ~RProper(rest) THEN RErr("InvalidNilTerminator")
           ELSE LET av == EvalList(rest, env, NAdd(c, N(ROpCost)), lim)
                IN  IF av.st # "ok" THEN av ELSE RApply(head, av.val, av.cost, lim)

\* the reference outcome of a whole run: default flags, unlimited budget (2^64-1)
RefOutcome(prog, env) ==
  LET r == Eval(prog, env, << >>, U64Max)
  IN  IF r.st = "ok" /\ NGt(r.cost, U64Max) THEN RErr("CostExceeded") ELSE r
=============================================================================
