------------------------------- MODULE Prim -------------------------------
(* The one primitive the specification does not define in TLA+: SHA-256 over a  *)
(* byte sequence.  TLC loads Prim.class (next to this file) as a module         *)
(* override; the definition below is never evaluated.  The two NIST vectors in  *)
(* the ASSUME stop TLC before any check if the override is missing or wrong.    *)
EXTENDS Naturals, Sequences

SHA256(bytes) == CHOOSE h \in Seq(0..255) : Len(h) = 32

HexVal(c) == CASE c = "0" -> 0 [] c = "1" -> 1 [] c = "2" -> 2 [] c = "3" -> 3
               [] c = "4" -> 4 [] c = "5" -> 5 [] c = "6" -> 6 [] c = "7" -> 7
               [] c = "8" -> 8 [] c = "9" -> 9 [] c = "a" -> 10 [] c = "b" -> 11
               [] c = "c" -> 12 [] c = "d" -> 13 [] c = "e" -> 14 [] c = "f" -> 15

ASSUME SHA256(<<>>) =
  << 227,176,196,66,152,252,28,20,154,251,244,200,153,111,185,36,
     39,174,65,228,100,155,147,76,164,149,153,27,120,82,184,85 >>
ASSUME SHA256(<<97,98,99>>) =
  << 186,120,22,191,143,1,207,234,65,65,64,222,93,174,34,35,
     176,3,97,163,150,23,122,156,180,16,255,97,242,0,21,173 >>
=============================================================================
