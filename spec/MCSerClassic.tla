---------------------------- MODULE MCSerClassic ----------------------------
(* Bounded model of classic serialization (C15, C16, C29 at design level).    *)
(* Function-style: every input of the bounded universe is one state, the laws  *)
(* of SerClassic are the invariant, and each state prints one CASE             *)
(* line (input + the outcome the specification assigns) that the Rust harness  *)
(* replays into the real library (spec -> implementation).                     *)
(*                                                                             *)
(* IOEnv.KIND selects the universe (one TLC run per kind, cached separately):  *)
(*   tree    all trees of <= 7 nodes over the atom alphabet                    *)
(*   bytes   byte strings up to length 5 (+ structured longer prefixes)        *)
(*   limit   trees of <= 5 nodes x every limit 0..len+1                        *)
(*   prefix  length prefixes at every size-class boundary up to 2^34 (BigInt)  *)
EXTENDS SerClassic, TLC, Json, IOUtils
SE == INSTANCE SequencesExt

VARIABLE c

Tier == IF "TIER" \in DOMAIN IOEnv THEN IOEnv.TIER ELSE "quick"
Kind == IF "KIND" \in DOMAIN IOEnv THEN IOEnv.KIND ELSE "tree"
Thorough == Tier = "thorough"

---------------------------------------------------------------------------
(* trees *)

\* atom lengths 0, 1 (< 0x80), 1 (>= 0x80), 2, 63, 64; long atoms are repetitions of one byte
AtomsT == { << >>, << 127 >>, << 128 >>, << 254, 255 >>, Rep(63, 1), Rep(64, 255) }
            \cup (IF Thorough THEN { << 0 >>, << 1 >>, << 255 >>, << 255, 0 >>, Rep(65, 128) } ELSE {})
\* trees with exactly 1..4 leaves over the atom set A.  (Deliberately not RECURSIVE: TLC evaluates
\* constant definitions once only if their level is known, which it is not below a RECURSIVE.)
Pairs(X, Y) == { [f |-> l, r |-> rr] : l \in X, rr \in Y }
T1(A) == { [a |-> x] : x \in A }
T2(A) == Pairs(T1(A), T1(A))
T3(A) == Pairs(T1(A), T2(A)) \cup Pairs(T2(A), T1(A))
T4(A) == Pairs(T1(A), T3(A)) \cup Pairs(T2(A), T2(A)) \cup Pairs(T3(A), T1(A))
Trees == IF Kind = "tree" THEN T1(AtomsT) \cup T2(AtomsT) \cup T3(AtomsT) \cup T4(AtomsT) ELSE {}

\* limits: small trees, every L in 0..len+1
AtomsL == { << >>, << 127 >>, << 128 >>, << 254, 255 >>, Rep(64, 7) }
TreesLim == IF Kind # "limit" THEN {}
            ELSE T1(AtomsL) \cup T2(AtomsL) \cup T3(AtomsL)
                   \cup (IF Thorough THEN T4(AtomsL \ { Rep(64, 7) }) ELSE {})

---------------------------------------------------------------------------
(* byte strings *)

\* every prefix class (1..6 size bytes), the back-reference marker, the cons marker,
\* nil, the single-byte atoms 0x00, 0x01 and 0x7f
Alpha == { 0, 1, 127, 128, 129, 130, 192, 224, 240, 248, 252, 254, 255 }
AlphaM == { 0, 1, 127, 128, 129, 192, 224, 240, 254, 255 }
AlphaS == { 0, 1, 128, 129, 192, 255 }
\* one or two representatives of every class of first byte
FirstReps == { 0, 1, 2, 127, 128, 129, 130, 191, 192, 193, 223, 224, 225, 239, 240, 241, 247, 248, 249,
               251, 252, 253, 254, 255 }
Str(n, F, A) == { << x >> \o t : x \in F, t \in [1..(n - 1) -> A] }

\* The byte-string universe is never built as one set: seed (n, x) stands for the strings of
\* length n with first byte x, enumerated by the worker that picks the seed up.
AlphaFor(n) == IF n <= 2 THEN Alpha
               ELSE IF n = 3 THEN (IF Thorough THEN Alpha ELSE AlphaM)
               ELSE IF n = 4 THEN (IF Thorough THEN Alpha ELSE AlphaM)
               ELSE IF n = 5 THEN (IF Thorough THEN AlphaM ELSE AlphaS)
               ELSE { 0, 1, 255 }       \* long prefixes (5, 6 and the refused 7 size bytes) need 6..8 bytes
FirstFor(n) == IF n <= 3 THEN 0..255 ELSE IF n <= 5 THEN FirstReps ELSE { 248, 251, 252, 253, 254 }
MaxLen == IF Thorough THEN 8 ELSE 7
\* cons cells whose children use non-minimal prefixes
ConsExtras == { << 255 >> \o x \o y : x \in { << 129, 5 >>, << 192, 0 >>, << 192, 1, 200 >>, << 128 >>, << 5 >> },
                                     y \in { << 129, 5 >>, << 192, 0 >>, << 224, 0, 1, 9 >>, << 128 >>, << 129, 200 >> } }
BytesSeeds == { [kind |-> "seed", n |-> 0, x |-> 0] }
                \cup { [kind |-> "seed", n |-> n, x |-> x] : n \in 1..3, x \in 0..255 }
                \cup { [kind |-> "seed", n |-> n, x |-> x] : n \in 4..5, x \in FirstReps }
                \cup { [kind |-> "seed", n |-> n, x |-> x] : n \in 6..MaxLen, x \in { 248, 251, 252, 253, 254 } }
BytesOf(sd) == IF sd.n = 0 THEN { << >> } \cup ConsExtras ELSE Str(sd.n, { sd.x }, AlphaFor(sd.n))

---------------------------------------------------------------------------
(* length prefixes *)

\* every size-class boundary -3..+2, the 2^28 constant of is_canonical_atom, 2^32 (u32 lengths), 2^34 (first
\* refused size), 2^35, 2^40 and a few ordinary sizes - written out as BigInt literals (a definition that
\* reaches a RECURSIVE operator has no known level, and TLC would re-evaluate Cases at every use)
Sizes == { << >>,
           << 1 >>,
           << 2 >>,
           << 3 >>,
           << 4 >>,
           << 61 >>,
           << 62 >>,
           << 63 >>,
           << 64 >>,
           << 65 >>,
           << 66 >>,
           << 100 >>,
           << 136, 19 >>,
           << 253, 31 >>,
           << 254, 31 >>,
           << 255, 31 >>,
           << 0, 32 >>,
           << 1, 32 >>,
           << 2, 32 >>,
           << 112, 17, 1 >>,
           << 253, 255, 15 >>,
           << 254, 255, 15 >>,
           << 255, 255, 15 >>,
           << 0, 0, 16 >>,
           << 1, 0, 16 >>,
           << 2, 0, 16 >>,
           << 1, 2, 3, 4 >>,
           << 253, 255, 255, 7 >>,
           << 254, 255, 255, 7 >>,
           << 255, 255, 255, 7 >>,
           << 0, 0, 0, 8 >>,
           << 1, 0, 0, 8 >>,
           << 2, 0, 0, 8 >>,
           << 253, 255, 255, 15 >>,
           << 254, 255, 255, 15 >>,
           << 255, 255, 255, 15 >>,
           << 0, 0, 0, 16 >>,
           << 1, 0, 0, 16 >>,
           << 2, 0, 0, 16 >>,
           << 253, 255, 255, 255 >>,
           << 254, 255, 255, 255 >>,
           << 255, 255, 255, 255 >>,
           << 0, 0, 0, 0, 1 >>,
           << 1, 0, 0, 0, 1 >>,
           << 2, 0, 0, 0, 1 >>,
           << 9, 8, 7, 6, 1 >>,
           << 253, 255, 255, 255, 3 >>,
           << 254, 255, 255, 255, 3 >>,
           << 255, 255, 255, 255, 3 >>,
           << 0, 0, 0, 0, 4 >>,
           << 1, 0, 0, 0, 4 >>,
           << 2, 0, 0, 0, 4 >>,
           << 253, 255, 255, 255, 7 >>,
           << 254, 255, 255, 255, 7 >>,
           << 255, 255, 255, 255, 7 >>,
           << 0, 0, 0, 0, 8 >>,
           << 1, 0, 0, 0, 8 >>,
           << 2, 0, 0, 0, 8 >>,
           << 253, 255, 255, 255, 255 >>,
           << 254, 255, 255, 255, 255 >>,
           << 255, 255, 255, 255, 255 >>,
           << 0, 0, 0, 0, 0, 1 >>,
           << 1, 0, 0, 0, 0, 1 >>,
           << 2, 0, 0, 0, 0, 1 >> }

---------------------------------------------------------------------------

Cases ==
  CASE Kind = "tree" -> { [kind |-> "tree", t |-> t] : t \in Trees }
    [] Kind = "bytes" -> { }                    \* see BytesSeeds
    [] Kind = "limit" -> { [kind |-> "limit", t |-> t, L |-> L] : t \in TreesLim, L \in 0..202 }
    [] Kind = "prefix" -> { [kind |-> "prefix", n |-> n, fill |-> x, k |-> k] : n \in Sizes, x \in { 0, 128 }, k \in 0..7 }

\* TLC computes initial states (and checks the invariant on them) with one thread, so the
\* universe is handed out through NSeeds seed states: the successors of seed i are the i-th
\* slice of the cases, and the workers evaluate the laws of different slices in parallel.
CaseSeq == SE!SetToSeq(Cases)
NSeeds == 64
Chunk == (Len(CaseSeq) + NSeeds - 1) \div NSeeds
Init == IF Kind = "bytes" THEN c \in BytesSeeds
        ELSE c \in { [kind |-> "seed", i |-> i] : i \in 0..(NSeeds - 1) }
Next == IF c.kind # "seed" THEN UNCHANGED c
        ELSE IF Kind = "bytes" THEN \E b \in BytesOf(c) : c' = [kind |-> "bytes", b |-> b]
        ELSE \E j \in (c.i * Chunk + 1)..Min2((c.i + 1) * Chunk, Len(CaseSeq)) : c' = CaseSeq[j]

Emit(r) == PrintT(<< "CASE", ToJson(r) >>)

TreeCase ==
  LET e == Encode(c.t)
  IN  /\ TreeLawsOn(c.t, e)
      /\ Emit([kind |-> "tree", t |-> c.t, bytes |-> e, len |-> Len(e), hash |-> TreeHash(c.t)])

BytesCase ==
  LET d == Decode(c.b)
      lt == LenTrusted(c.b)
      cn == IsCanonical(c.b)
  IN  /\ BytesLawsOn(c.b, d, cn, lt)
      /\ Emit([kind |-> "bytes", b |-> c.b, ok |-> d.ok, fe |-> d.fe, used |-> d.used,
               t |-> IF d.ok THEN NodeTree(d.node) ELSE [a |-> << >>],
               tr |-> IF d.ok THEN Triples(d.node) ELSE << >>,
               h |-> IF d.ok THEN TreeHash(NodeTree(d.node)) ELSE << >>,
               canon |-> cn,
               lt_ok |-> lt.ok, lt |-> lt.v,
               mb |-> MemBoundFor(c.b, d), mbu |-> MemBoundFor(c.b, d) + AllocatorReserve])

\* C29: the machine with a limited writer = EncodeLimited, and the refusal falls where the
\* byte L+1 of the full output lies
LimitCase ==
  LET full == Encode(c.t)
  IN  IF c.L > Len(full) + 1 THEN TRUE
      ELSE LET m == EncRun(EncInit(c.t, c.L))
               x == EncodeLimited(c.t, c.L)
               w == WhereCrossed(full, c.L)
           IN  /\ x.ok <=> m.st = "ok"
               /\ x.ok => m.out = x.bytes /\ x.bytes = full /\ w = "fits"
               /\ ~x.ok => m.st = x.err /\ m.where = w /\ Len(m.out) <= c.L
               /\ Emit([kind |-> "limit", t |-> c.t, L |-> c.L, ok |-> x.ok, bytes |-> x.bytes,
                        err |-> x.err, where |-> w, full_len |-> Len(full)])

\* the prefix lemma at size n (a BigInt natural), body byte `fill`, prefix width k (0 = the
\* width write_atom chooses, 1..7 = a prefix of exactly that many bytes if n fits in it)
PrefixCase ==
  LET n == c.n
      ap == AtomPrefix(n, c.fill)
  IN  IF c.k = 0
      THEN /\ ap.ok <=> NLt(n, Lim5)
           /\ (ap.ok /\ ap.bytes # << >>) =>
                LET ds == DecodeSize(ap.bytes, 1, ap.bytes[1])
                IN  /\ ds.ok /\ ds.size = n /\ ds.k = Len(ap.bytes) /\ ds.pos = Len(ap.bytes)
                    /\ n = << >> \/ NGe(n, MinForPrefix(ds.k))                     \* judged canonical
                    /\ \A j \in 1..(ds.k - 1) : NGe(n, Capacity(j))                \* no shorter prefix carries n
                    /\ SymCanonical(ap.bytes, n, c.fill)
                    /\ IF n = << >> \/ NGe(n, MinForPrefixCode(ds.k)) THEN TRUE
                       ELSE PrintT(<< "FINDING", ToJson([what |-> "is_canonical_atom minimum for this prefix width exceeds the size class start",
                                                         n |-> n, k |-> ds.k]) >>)
           /\ (ap.ok /\ ap.bytes = << >>) => n = << 1 >> /\ c.fill < 128
           /\ Emit([kind |-> "prefix", n |-> n, fill |-> c.fill, ok |-> ap.ok, prefix |-> ap.bytes])
      ELSE IF c.k = 7 \/ NGe(n, Capacity(c.k))
      THEN TRUE          \* n does not fit a k-byte prefix (7 size bytes are never accepted: kind "bytes")
      ELSE LET P == PrefixOfWidth(n, c.k)
               d == SymDecode(P, n)
               cn == SymCanonical(P, n, c.fill)
           IN  /\ LeadOnes(P[1]) = c.k
               /\ d.ok <=> NLt(n, Lim5)                                            \* any width decodes, below 2^34
               /\ d.ok => d.size = n /\ d.k = c.k /\ d.used = NAddI(n, c.k)
               /\ cn <=> (ap.ok /\ ap.bytes = P)                                   \* canonical = the width write_atom chooses
               /\ n # << >> => ~SymDecode(P, NSub(n, << 1 >>)).ok                     \* one byte short: refused
               /\ Emit([kind |-> "wprefix", n |-> n, fill |-> c.fill, p |-> P, ok |-> d.ok, used |-> d.used,
                        canon |-> cn])

Laws ==
  CASE c.kind = "seed" -> TRUE
    [] c.kind = "tree" -> TreeCase
    [] c.kind = "bytes" -> BytesCase
    [] c.kind = "limit" -> LimitCase
    [] c.kind = "prefix" -> PrefixCase
=============================================================================
