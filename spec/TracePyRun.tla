---------------------------- MODULE TracePyRun ----------------------------
(***************************************************************************)
(* Trace validation of whole-program runs made through the Python wheel    *)
(* (engine `py`: C26 run clause, C28 curry clause).                        *)
(*                                                                         *)
(* Trace (written by harness bin `pyref run-cases`, completed by            *)
(* pyharness/driver.py `runs`):                                            *)
(*   begin   case, variant "<vn>rust", flagword (4 bytes LE, as handed to   *)
(*           run_serialized_chia_program), flags (names pyref obtained by    *)
(*           ClvmFlags::from_bits_truncate), budget, pbytes, ebytes (the     *)
(*           serialized inputs), prog, env (what the classic Rust decoder    *)
(*           made of them), al (allocator counters right before             *)
(*           run_program, limit 500000000 under LIMIT_HEAP else -1), wit     *)
(*   end     variant "<vn>rust": what Rust run_program returned (+counters) *)
(*   end     variant "<vn>py":   what the Python call returned (no counters:*)
(*           Python cannot see them); rels = relations to earlier variants   *)
(*           of the same case that must hold between the OBSERVED outcomes   *)
(*   prefail an input the binding refuses before running (does not           *)
(*           deserialize): rust / py records of the refusal                  *)
(*                                                                         *)
(* One Interp machine run per begin (one TLC state per machine step); every *)
(* end event that follows is compared with its outcome.  The flag set of    *)
(* the machine is computed HERE from the 32-bit word (truncation of unknown *)
(* bits is part of C26), the heap limit from LIMIT_HEAP.                    *)
(*                                                                         *)
(* Mismatch kinds (attribution to properties in engines/py.py):            *)
(*   rel:py_eq_rust   C26: same cost and result tree, or same error message *)
(*   rel:curry_same   C28: curried program on env = module on args ++ env   *)
(*   prefail:py_eq_rust  C26 for inputs that do not deserialize             *)
(*   outcome, counters, input, prefail:spec, rel:py_errnode   diagnostics   *)
(***************************************************************************)
EXTENDS Interp, TLC, Json, IOUtils

SC == INSTANCE SerClassic

Rec == ndJsonDeserialize(IOEnv.TRACE)
Fuel == 60000
MaxDecodeBytes == 3000      \* inputs longer than this are not re-decoded by the specification

VARIABLES l, st, grp, cnt, bl
vars == << l, st, grp, cnt, bl >>

Has(e, f) == f \in DOMAIN e
SetOf(s) == {s[i] : i \in 1..Len(s)}
Idle == [status |-> "idle"]

---------------------------------------------------------------------------
(* the flag word: bit -> name, by byte of the little-endian word           *)

FlagBits == << << "CANONICAL_INTS", 1, 1 >>, << "NO_UNKNOWN_OPS", 1, 2 >>, << "LIMIT_HEAP", 1, 4 >>,
               << "RELAXED_BLS", 1, 8 >>, << "LIMIT_SOFTFORK", 1, 16 >>, << "ENABLE_GC", 1, 32 >>,
               << "LIMITS", 1, 64 >>,
               << "ENABLE_KECCAK_OPS_OUTSIDE_GUARD", 2, 1 >>, << "DISABLE_OP", 2, 2 >>,
               << "ENABLE_SHA256_TREE", 2, 4 >>, << "ENABLE_SECP_OPS", 2, 8 >>, << "MALACHITE", 2, 16 >>,
               << "NEW_COST_MODEL", 2, 32 >> >>
\* ClvmFlags::from_bits_truncate: the named bits that are set; every other bit is dropped
FlagNames(w) == {FlagBits[i][1] : i \in {j \in 1..Len(FlagBits) : (Dig(w, FlagBits[j][2]) \div FlagBits[j][3]) % 2 = 1}}
HeapLimit(fl) == IF "LIMIT_HEAP" \in fl THEN 500000000 ELSE -1

---------------------------------------------------------------------------
(* recorded outcomes *)

Bad(e) == Has(e, "panic") \/ Has(e, "pyexc")

Observed(e) ==
  IF Bad(e) THEN [st |-> "panic"]
  ELSE IF e.ok THEN [st |-> "ok", cost |-> e.cost, val |-> TreeOf(e.val)]
  ELSE [st |-> "err", kind |-> e.kind]

ObsMsg(e) ==
  IF Bad(e) THEN [st |-> "panic"]
  ELSE IF e.ok THEN [st |-> "ok", cost |-> e.cost, val |-> TreeOf(e.val)]
  ELSE [st |-> "err", msg |-> e.msg]

\* a = this end event, b = an earlier end event of the same case
RelHolds(k, a, b) ==
  CASE k = "py_eq_rust" -> ~Bad(a) /\ ~Bad(b) /\ ObsMsg(a) = ObsMsg(b)
    [] k = "py_errnode" -> (~Bad(a) /\ ~Bad(b) /\ ~a.ok /\ ~b.ok /\ Has(a, "enode") /\ Has(b, "enode"))
                              => TreeOf(a.enode) = TreeOf(b.enode)
    [] k = "curry_same" -> /\ ~Bad(a) /\ ~Bad(b)
                           /\ a.ok = b.ok
                           /\ a.ok => TreeOf(a.val) = TreeOf(b.val)
    [] OTHER -> FALSE

Report(kind, e, detail) ==
  PrintT(<< "MISMATCH", ToJson([kind |-> kind, line |-> l, case |-> e.case,
                                variant |-> IF Has(e, "variant") THEN e.variant ELSE "", detail |-> detail]) >>)

---------------------------------------------------------------------------
(* what the specification says about the serialized inputs (pure operators:  *)
(* evaluated once per event)                                                 *)

DecodeOf(bytes) ==
  IF Len(bytes) > MaxDecodeBytes THEN [ok |-> TRUE, skip |-> TRUE]
  ELSE LET r == SC!ParseAt(bytes, 0)
       IN  IF r.ok THEN [ok |-> TRUE, skip |-> FALSE, tree |-> SC!NodeTree(r.node)] ELSE [ok |-> FALSE, skip |-> FALSE]

InputOk(e) ==
  LET p == DecodeOf(e.pbytes)
      a == DecodeOf(e.ebytes)
  IN  /\ p.ok /\ (p.skip \/ p.tree = TreeOf(e.prog))
      /\ a.ok /\ (a.skip \/ a.tree = TreeOf(e.env))
      /\ FlagNames(e.flagword) = SetOf(e.flags)
      /\ e.al.limit = HeapLimit(FlagNames(e.flagword))

StartOf(e) ==
  LET fl == FlagNames(e.flagword)
  IN  Start(TreeOf(e.prog), TreeOf(e.env), e.budget, fl, "chia",
            [atoms |-> e.al.atoms, pairs |-> e.al.pairs, heap |-> e.al.heap, limit |-> HeapLimit(fl)],
            IF Has(e, "wit") THEN e.wit ELSE << >>)

\* a refused input: which of the two blobs the classic decoder refuses ("" = none: the spec would run it)
SpecRefuses(e) ==
  LET p == DecodeOf(e.pbytes) IN
  IF ~p.ok THEN "program"
  ELSE LET a == DecodeOf(e.ebytes) IN IF ~a.ok THEN "args" ELSE IF p.skip \/ a.skip THEN "skip" ELSE ""

PrefailPyEqRust(e) ==
  /\ ~Bad(e.rust) /\ ~Bad(e.py)
  /\ ~e.py.ok
  /\ Has(e.py, "msg") /\ Has(e.rust, "msg") /\ e.py.msg = e.rust.msg

PrefailSpecOk(e) ==
  LET w == SpecRefuses(e) IN w = "skip" \/ (Has(e.rust, "which") /\ w = e.rust.which /\ e.rust.msg = "bad encoding")

EndChecks(e, s) ==
  \* the set of failed checks of an end event against the finished machine state s
  LET spec == Outcome(s)
      obs == Observed(e)
      decided == s.status \in {"ok", "err"}
  IN  [outcome |-> decided /\ spec # obs,
       counters |-> decided /\ spec = obs /\ ~Bad(e) /\ e.ok /\ Has(e, "atoms")
                      /\ ~(s.al.atoms = e.atoms /\ s.al.pairs = e.pairs /\ s.al.heap = e.heap),
       expected |-> spec, observed |-> obs, steps |-> s.steps]

PriorOf(g, name) == SelectSeq(g, LAMBDA x : x.variant = name)

RelFailures(e, g) ==
  \* relations of e that do not hold, as << k, to >> pairs
  LET RR == {i \in 1..Len(e.rels) : LET p == PriorOf(g, e.rels[i].to)
                                   IN  p # << >> /\ ~RelHolds(e.rels[i].k, e, p[1])}
      NN == {i \in 1..Len(e.rels) : e.rels[i].k = "py_eq_rust" /\
                                   LET p == PriorOf(g, e.rels[i].to)
                                   IN  p # << >> /\ ~RelHolds("py_errnode", e, p[1])}
  IN  [rels |-> {<< e.rels[i].k, e.rels[i].to >> : i \in RR}, nodes |-> {e.rels[i].to : i \in NN}]

---------------------------------------------------------------------------
Init == l = 1 /\ st = Idle /\ grp = << >> /\ bl = 0
        /\ cnt = [runs |-> 0, ends |-> 0, abstained |-> 0, steps |-> 0, fuel |-> 0, prefail |-> 0, witdiff |-> 0]

Begin(e) ==
  /\ e.ev = "begin"
  /\ st.status # "run"
  /\ IF InputOk(e) THEN TRUE ELSE Report("input", e, [flags |-> e.flags, flagword |-> e.flagword, al |-> e.al])
  /\ st' = IF Has(e, "wit_same") /\ ~e.wit_same THEN AbstainS(StartOf(e), "witness run differs") ELSE StartOf(e)
  /\ grp' = IF grp # << >> /\ grp[1].case = e.case THEN grp ELSE << >>
  /\ bl' = l
  /\ l' = l + 1
  /\ cnt' = [cnt EXCEPT !.runs = @ + 1, !.witdiff = @ + (IF Has(e, "wit_same") /\ ~e.wit_same THEN 1 ELSE 0)]

Run ==
  /\ TRUE
  /\ st.status = "run"
  /\ st' = IF st.steps >= Fuel THEN AbstainS(st, "fuel") ELSE Step(st)
  /\ UNCHANGED << l, grp, cnt, bl >>

End(e) ==
  /\ e.ev = "end"
  /\ st.status \notin {"idle", "run"}
  /\ LET ch == EndChecks(e, st)
         rf == RelFailures(e, grp)
         decided == st.status \in {"ok", "err"}
     IN  /\ IF ch.outcome THEN Report("outcome", e, [expected |-> ch.expected, observed |-> ch.observed, steps |-> ch.steps]) ELSE TRUE
         /\ IF ch.counters THEN Report("counters", e, [expected |-> st.al, atoms |-> e.atoms, pairs |-> e.pairs, heap |-> e.heap]) ELSE TRUE
         /\ \A p \in rf.rels : Report("rel:" \o p[1], e, [to |-> p[2], this |-> ObsMsg(e),
                                                           other |-> ObsMsg(PriorOf(grp, p[2])[1])])
         /\ \A n \in rf.nodes : Report("rel:py_errnode", e, [to |-> n])
         /\ cnt' = [cnt EXCEPT !.ends = @ + 1,
                               !.steps = @ + (IF e.rels = << >> THEN st.steps ELSE 0),
                               !.abstained = @ + (IF decided THEN 0 ELSE 1),
                               !.fuel = @ + (IF st.status = "abstain" /\ st.kind = "fuel" THEN 1 ELSE 0)]
  /\ grp' = Append(grp, e)
  /\ l' = l + 1
  /\ UNCHANGED << st, bl >>

Prefail(e) ==
  /\ e.ev = "prefail"
  /\ st.status # "run"
  /\ IF PrefailPyEqRust(e) THEN TRUE ELSE Report("prefail:py_eq_rust", e, [rust |-> e.rust, py |-> e.py])
  /\ IF PrefailSpecOk(e) THEN TRUE ELSE Report("prefail:spec", e, [rust |-> e.rust, spec |-> SpecRefuses(e)])
  /\ st' = Idle
  /\ grp' = IF grp # << >> /\ grp[1].case = e.case THEN grp ELSE << >>
  /\ cnt' = [cnt EXCEPT !.prefail = @ + 1]
  /\ l' = l + 1
  /\ UNCHANGED bl

Next ==
  /\ l <= Len(Rec)
  /\ \/ Run
     \/ Begin(Rec[l])
     \/ End(Rec[l])
     \/ Prefail(Rec[l])

Done == (l = Len(Rec) + 1 /\ (st = Idle \/ st.status # "run"))
          => PrintT(<< "TRACE-DONE", ToJson([lines |-> l - 1, cnt |-> cnt]) >>)
=============================================================================
