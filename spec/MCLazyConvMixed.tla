-------------------------- MODULE MCLazyConvMixed --------------------------
(* Bounded model of LazyConvMixed.tla: every source (t1 . t2) with t1, t2 of at most      *)
(* MaxLeaves leaves over the atoms 0x41, 0x42.                                             *)
(*   MCLazyConvMixed_addr       the code (memo keyed by address): Correct                 *)
(*   MCLazyConvMixed_allocnode  LazyNodes keyed by (allocator, NodePtr): Correct          *)
(*   MCLazyConvMixed_node       LazyNodes keyed by NodePtr alone: TLC must find the        *)
(*                              conflation counterexample                                 *)
(*   MCLazyConvMixed_cases      the "node" model without the invariant; one CASE line per  *)
(*                              source tree (used to aim the mixed-allocator wrappers)     *)
EXTENDS LazyConvMixed, Json, IOUtils

CONSTANT MaxLeaves

Atoms == {[a |-> << 65 >>], [a |-> << 66 >>]}
RECURSIVE TreesWith(_)
TreesWith(n) ==
  IF n = 1 THEN Atoms
  ELSE UNION {{Pair(x, y) : x \in TreesWith(k), y \in TreesWith(n - k)} : k \in 1..(n - 1)}
Sub == UNION {TreesWith(n) : n \in 1..MaxLeaves}
AllTrees == {Pair(x, y) : x \in Sub, y \in Sub}

EmitCase ==
  pc = "done" => PrintT(<< "CASE", ToJson([tree |-> src, correct |-> result = src, res |-> result]) >>)
=============================================================================
