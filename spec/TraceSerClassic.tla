--------------------------- MODULE TraceSerClassic ---------------------------
(* Trace validation (implementation -> specification) for C15, C16, C29.      *)
(* Every line of IOEnv.TRACE is one call of the real library with its input    *)
(* and observed result (harness/src/bin/serde.rs `record`).  The specification *)
(* recomputes the result with SerClassic and prints one MISMATCH line per      *)
(* disagreement; it never stops at a mismatch.                                 *)
(*                                                                             *)
(* Events that take a byte string (de, triples, hash, canon, lenb, reser) are  *)
(* decided by the machines of SerClassic - the decode machine, the canonical   *)
(* check and the trusted length, advanced in lock step through Next, one TLC   *)
(* state per loop iteration of the real code.  Consecutive events on the same  *)
(* byte string share one run (cur).                                            *)
(* Events that take a tree (ser, len, limit) are decided by the definition     *)
(* Encode.  Events about inputs TLC cannot hold (big, bigser, rep) carry a     *)
(* summary and are decided by the prefix arithmetic / closed forms.            *)
EXTENDS SerClassic, TLC, Json, IOUtils

Rec == ndJsonDeserialize(IOEnv.TRACE)

VARIABLES l, cur, cov

Has(e, f) == f \in DOMAIN e

---------------------------------------------------------------------------
(* the three machines on one byte string *)

MInit == [d |-> DInit, c |-> CInit, t |-> TInit]
MDone(m) == m.d.st # "run" /\ m.c.st # "run" /\ m.t.st # "run"
MStep(b, m) == [d |-> IF m.d.st = "run" THEN DStep(b, m.d) ELSE m.d,
                c |-> IF m.c.st = "run" THEN CStep(b, m.c) ELSE m.c,
                t |-> IF m.t.st = "run" THEN TStep(b, m.t) ELSE m.t]

NeedsM(e) == e.ev \in { "de", "triples", "hash", "canon", "lenb", "reser" }

---------------------------------------------------------------------------
(* reporting *)

\* checks: a sequence of << name, holds >>; the names of those that do not hold
RECURSIVE FailedFrom(_, _)
FailedFrom(checks, i) ==
  IF i > Len(checks) THEN << >>
  ELSE IF checks[i][2] THEN FailedFrom(checks, i + 1)
  ELSE << checks[i][1] >> \o FailedFrom(checks, i + 1)
Failed(checks) == FailedFrom(checks, 1)

Report(r) == PrintT(<< "MISMATCH", ToJson(r) >>)

\* generic verdict for one event: print the failed observables (if any)
Verdict(line, e, checks, info) ==
  LET bad == IF Has(e, "panic") THEN << "panic" >> ELSE Failed(checks)
  IN  IF bad = << >> THEN TRUE
      ELSE Report([line |-> line, ev |-> e.ev, what |-> bad, info |-> info])

ResOf(x) == [ok |-> x.ok, v |-> IF x.ok THEN x.v ELSE 0]

---------------------------------------------------------------------------
(* tree events *)

SerChecks(e) ==
  LET enc == Encode(TreeOf(e.t))
  IN  << << "ser.result", e.r = "ok" >>,
         << "ser.bytes", e.r = "ok" => e.out = enc >> >>

LenChecks(e) ==
  LET n == Len(Encode(TreeOf(e.t)))
      want == [ok |-> TRUE, v |-> n]
  IN  << << "len.trusted", ResOf(e.trusted) = want >>,
         << "len.untrusted", ResOf(e.untrusted) = want >>,
         << "len.cache", e.cache = n >>,
         << "len.formula", TreeSerLen(TreeOf(e.t)) = n >> >>

\* C29.  One event = one tree, the unlimited output `full` of the same serializer, and the
\* result for every limit.  Classic: full must be Encode(t).  Back-references: full is a black
\* box (SerBackrefs.tla); the property only relates the limited result to it.
LimitItemOk(full, it) ==
  LET x == LimitedOf(full, it.L)
  IN  IF x.ok THEN it.r = "ok" /\ it.same ELSE it.r = x.err

LimitItemReport(line, e, full, kinds, it) ==
  IF LimitItemOk(full, it) THEN TRUE
  ELSE LET w == IF it.L < Len(full) THEN kinds[it.L + 1] ELSE "fits"
       IN  Report([line |-> line, ev |-> "limit", what |-> << "limit.result" >>,
                   info |-> [fn |-> e.fn, L |-> it.L, r |-> it.r, full_len |-> Len(full), where |-> w,
                             expect |-> IF it.L < Len(full) THEN "OutOfMemory" ELSE "ok",
                             f2 |-> (it.L < Len(full) /\ w # "atom-body" /\ it.r = CodeErrAt(w))]])

LimitEvent(line, e) ==
  IF Has(e, "panic") \/ e.full.r # "ok"
  THEN Report([line |-> line, ev |-> "limit", what |-> << "limit.unlimited" >>, info |-> [fn |-> e.fn]])
  ELSE LET full == e.full.out
           kinds == ByteKinds(full)
       IN  /\ IF e.fn = "classic" /\ full # Encode(TreeOf(e.t))
              THEN Report([line |-> line, ev |-> "limit", what |-> << "limit.full" >>, info |-> [fn |-> e.fn]])
              ELSE TRUE
           /\ \A i \in 1..Len(e.res) : LimitItemReport(line, e, full, kinds, e.res[i])

\* coverage: where each refused limit fell
LimitKeys(e) ==
  IF Has(e, "panic") \/ e.full.r # "ok" THEN << >>
  ELSE LET full == e.full.out
           kinds == ByteKinds(full)
       IN  [i \in 1..Len(e.res) |->
              IF e.res[i].L < Len(full) THEN "limit@" \o kinds[e.res[i].L + 1] ELSE "limit@fits"]

---------------------------------------------------------------------------
(* byte-string events; m = the finished machines for e.b *)

DeChecks(e, m) ==
  LET x == DResult(m.d)
      t == IF x.ok THEN NodeTree(x.node) ELSE [a |-> << >>]
  IN  << << "de.accept", e.s.ok = x.ok >>,
         << "de.consumed", (e.s.ok /\ x.ok) => e.s.used = x.used >>,
         << "de.tree", (e.s.ok /\ x.ok) => TreeOf(e.s.t) = t >>,
         << "de.bytes_accept", e.nb.ok = x.ok >>,
         << "de.bytes_tree", (e.nb.ok /\ x.ok) => TreeOf(e.nb.t) = t >>,
         << "de.mem_stream", Has(e, "mem_s") => MemOk(e.mem_s, MemBoundFor(e.b, x)) >>,
         << "de.mem_bytes", Has(e, "mem_nb") => MemOk(e.mem_nb, MemBoundFor(e.b, x)) >> >>

TriplesChecks(e, m) ==
  LET x == DResult(m.d)
  IN  << << "triples.accept", e.ok = x.ok >>,
         << "triples.consumed", (e.ok /\ x.ok) => e.used = x.used >>,
         << "triples.list", (e.ok /\ x.ok) => e.tr = Triples(x.node) >>,
         << "triples.hash", (e.ok /\ x.ok /\ Has(e, "h")) => e.h = TreeHash(NodeTree(x.node)) >>,
         << "triples.mem", Has(e, "mem") => MemOk(e.mem, MemBoundFor(e.b, x)) >> >>

HashChecks(e, m) ==
  LET x == DResult(m.d)
  IN  << << "hash.accept", e.ok = x.ok >>,
         << "hash.consumed", (e.ok /\ x.ok) => e.used = x.used >>,
         << "hash.value", (e.ok /\ x.ok) => e.h = TreeHash(NodeTree(x.node)) >>,
         << "hash.mem", Has(e, "mem") => MemOk(e.mem, MemBoundFor(e.b, x)) >> >>

\* C16: for inputs the decoder accepts, canonical <=> whole input is one tree whose
\* re-serialization reproduces it.  For inputs it refuses the verdict of the machine
\* (which knows back-references) is the expectation; only diagnostics there.
CanonChecks(e, m) ==
  LET x == DResult(m.d)
  IN  << << "canon.definition", x.ok => (e.v <=> CanonicalByDefinition(e.b, x)) >>,
         << "canon.machine", e.v = (m.c.st = "true") >>,
         << "canon.mem", Has(e, "mem") => MemOk(e.mem, MemBoundFor(e.b, x)) >> >>

LenbChecks(e, m) ==
  LET x == DResult(m.d)
  IN  << << "lenb.trusted", ResOf(e.trusted) = [ok |-> m.t.st = "ok", v |-> IF m.t.st = "ok" THEN m.t.pos ELSE 0] >>,
         << "lenb.untrusted", x.fe \/ ResOf(e.untrusted) = [ok |-> x.ok, v |-> x.used] >>,
         << "lenb.mem_trusted", Has(e, "mem_t") => MemOk(e.mem_t, MemBoundFor(e.b, x)) >>,
         << "lenb.mem_untrusted", Has(e, "mem_u") => MemOk(e.mem_u, MemBoundFor(e.b, x) + AllocatorReserve) >> >>

\* C15 converse: decode, re-serialize; when the library itself judges the input canonical
\* (e.canon) the result must be exactly the consumed bytes
ReserChecks(e, m) ==
  LET x == DResult(m.d)
  IN  << << "reser.accept", e.ok = x.ok >>,
         << "reser.result", (e.ok /\ x.ok) => e.r = "ok" >>,
         << "reser.encode", (e.ok /\ x.ok /\ e.r = "ok") => e.out = Encode(NodeTree(x.node)) >>,
         << "reser.consumed_bytes", (e.ok /\ x.ok /\ e.r = "ok" /\ e.canon) => e.out = SubSeq(e.b, 1, x.used) >> >>

MInfo(e, m) ==
  LET x == DResult(m.d)
  IN  [dec_ok |-> x.ok, used |-> x.used, fe |-> x.fe, canon |-> m.c.st = "true",
       by_def |-> CanonicalByDefinition(e.b, x), mem_bound |-> MemBoundFor(e.b, x)]

---------------------------------------------------------------------------
(* summaries of inputs TLC cannot hold *)

NRes(x) == [ok |-> x.ok, v |-> IF x.ok THEN x.v ELSE << >>]

\* input = e.p ++ fill^have  (e.p a complete length prefix; have a BigInt natural)
BigChecks(e) ==
  LET d == SymDecode(e.p, e.have)
      want == [ok |-> d.ok, v |-> d.used]
      cn == SymCanonical(e.p, e.have, e.fill)
  IN  << << "big.canon", Has(e, "canon") => e.canon = cn >>,
         << "big.trusted", Has(e, "trusted") => NRes(e.trusted) = want >>,
         << "big.untrusted", Has(e, "untrusted") => NRes(e.untrusted) = want >>,
         << "big.de", Has(e, "de") => /\ e.de.ok = d.ok
                                      /\ (d.ok /\ e.de.ok) => e.de.used = d.used /\ e.de.alen = d.size /\ e.de.body_ok >>,
         << "big.hash", Has(e, "hash") => /\ e.hash.ok = d.ok
                                          /\ (d.ok /\ e.hash.ok) => e.hash.used = d.used >>,
         << "big.triples", Has(e, "triples") =>
                             /\ e.triples.ok = d.ok
                             /\ (d.ok /\ e.triples.ok) => /\ e.triples.used = d.used /\ e.triples.count = 1
                                                          /\ e.triples.s = << >> /\ e.triples.e = d.used
                                                          /\ e.triples.x = d.k >> >>

\* one atom of n bytes (all `fill`) through a serializer; the harness reports the prefix it
\* saw, the total number of bytes and whether the body was the atom
BigSerChecks(e) ==
  LET ap == AtomPrefix(e.n, e.fill)
      total == NAddI(e.n, Len(ap.bytes))
      fits == ap.ok /\ (e.via # "node_to_bytes" \/ NLe(total, N(2000000)))
  IN  << << "bigser.result", (e.r = "ok") = fits >>,
         << "bigser.prefix", (fits /\ e.r = "ok") => e.prefix = ap.bytes >>,
         << "bigser.total", (fits /\ e.r = "ok") => e.total = total /\ e.body_ok >>,
         << "bigser.cache", ~Has(e, "cache_panic") /\ ((ap.ok /\ Has(e, "cache")) => e.cache = total) >> >>

\* n-fold repetition: rlist = (item item ... item . tail), llist = (((tail . item) . item) ...),
\* dbl = n doublings x -> (x . x) of item (a DAG in the allocator, 2^n leaves when expanded)
RECURSIVE Dbl(_, _)
Dbl(n, I) == IF n = 0 THEN I ELSE LET x == Dbl(n - 1, I) IN << 255 >> \o x \o x
RepBytes(shape, n, I, T) ==
  LET w == 1 + Len(I)
  IN  IF shape = "dbl" THEN Dbl(n, I)
      ELSE IF shape = "rlist"
      THEN [i \in 1..(n * w + Len(T)) |->
              IF i <= n * w THEN (IF (i - 1) % w = 0 THEN 255 ELSE I[(i - 1) % w]) ELSE T[i - n * w]]
      ELSE [i \in 1..(n * w + Len(T)) |->
              IF i <= n THEN 255 ELSE IF i <= n + Len(T) THEN T[i - n] ELSE I[((i - n - Len(T) - 1) % Len(I)) + 1]]
RECURSIVE RepTree(_, _, _, _)
RepTree(shape, n, it, tl) ==
  IF shape = "dbl" THEN (IF n = 0 THEN it ELSE LET x == RepTree(shape, n - 1, it, tl) IN [f |-> x, r |-> x])
  ELSE IF n = 0 THEN tl
  ELSE IF shape = "rlist" THEN [f |-> it, r |-> RepTree(shape, n - 1, it, tl)]
  ELSE [f |-> RepTree(shape, n - 1, it, tl), r |-> it]
\* the closed form is Encode of the repeated tree (checked on small n for every rep event too)
RepLemma(shape, it, tl) ==
  \A n \in 0..3 : Encode(RepTree(shape, n, it, tl)) = RepBytes(shape, n, Encode(it), Encode(tl))

RepChecks(e) ==
  LET it == TreeOf(e.item)
      tl == TreeOf(e.tail)
      E == RepBytes(e.shape, e.n, Encode(it), Encode(tl))
      want == [ok |-> TRUE, v |-> Len(E)]
  IN  << << "rep.lemma", RepLemma(e.shape, it, tl) >>,
         << "rep.ser", e.r = "ok" /\ e.out_len = Len(E) /\ e.out_sha = SHA256(E) >>,
         << "rep.canon", Has(e, "canon") => e.canon >>,
         << "rep.trusted", Has(e, "trusted") => ResOf(e.trusted) = want >>,
         << "rep.untrusted", Has(e, "untrusted") => ResOf(e.untrusted) = want >>,
         << "rep.cache", Has(e, "cache") => e.cache = Len(E) >>,
         << "rep.de", Has(e, "de") => e.de.ok /\ e.de.used = Len(E) /\ e.de.same >> >>

---------------------------------------------------------------------------

Check(line, e, m) ==
  CASE e.ev = "ser" -> Verdict(line, e, SerChecks(e), [x |-> 0])
    [] e.ev = "len" -> Verdict(line, e, LenChecks(e), [x |-> 0])
    [] e.ev = "limit" -> LimitEvent(line, e)
    [] e.ev = "de" -> Verdict(line, e, DeChecks(e, m), MInfo(e, m))
    [] e.ev = "triples" -> Verdict(line, e, TriplesChecks(e, m), MInfo(e, m))
    [] e.ev = "hash" -> Verdict(line, e, HashChecks(e, m), MInfo(e, m))
    [] e.ev = "canon" -> Verdict(line, e, CanonChecks(e, m), MInfo(e, m))
    [] e.ev = "lenb" -> Verdict(line, e, LenbChecks(e, m), MInfo(e, m))
    [] e.ev = "reser" -> Verdict(line, e, ReserChecks(e, m), MInfo(e, m))
    [] e.ev = "crash" -> \* the process running the call died (totality); e.overalloc: it was refused > 1 GiB
                         Report([line |-> line, ev |-> "crash", what |-> << "crash" >>,
                                 info |-> [fn |-> e.fn, overalloc |-> e.overalloc, of |-> e.of]])
    [] e.ev = "big" -> Verdict(line, e, BigChecks(e), [x |-> 0])
    [] e.ev = "bigser" -> Verdict(line, e, BigSerChecks(e), [x |-> 0])
    [] e.ev = "rep" -> Verdict(line, e, RepChecks(e), [x |-> 0])
    [] OTHER -> Report([line |-> line, ev |-> e.ev, what |-> << "unknown-event" >>, info |-> [x |-> 0]])

\* coverage counters: events per kind, decode outcomes, where refused limits fell, abstentions
CovKeys == { "ser", "len", "limit", "de", "triples", "hash", "canon", "lenb", "reser", "big", "bigser", "rep",
             "crash", "other", "de:ok", "de:err", "de:fe", "canon:true", "canon:false", "abstain:lenb-backref",
             "limit@cons-marker", "limit@atom-prefix", "limit@atom-body", "limit@backref-marker",
             "limit@trailing", "limit@fits", "machine-steps" }
RECURSIVE BumpAll(_, _, _)
BumpAll(cv, keys, i) ==
  IF i > Len(keys) THEN cv
  ELSE BumpAll([cv EXCEPT ![keys[i]] = @ + 1], keys, i + 1)
KeysOf(e, m) ==
  << IF e.ev \in CovKeys THEN e.ev ELSE "other" >>
    \o (IF e.ev = "de" THEN << IF m.d.st = "ok" THEN "de:ok" ELSE IF m.d.fe THEN "de:fe" ELSE "de:err" >> ELSE << >>)
    \o (IF e.ev = "canon" THEN << IF m.c.st = "true" THEN "canon:true" ELSE "canon:false" >> ELSE << >>)
    \o (IF e.ev = "lenb" /\ m.d.fe THEN << "abstain:lenb-backref" >> ELSE << >>)
    \o (IF e.ev = "limit" THEN LimitKeys(e) ELSE << >>)

Init == /\ l = 1
        /\ cur = [valid |-> FALSE, b |-> << >>, m |-> MInit]
        /\ cov = [k \in CovKeys |-> 0]

Next ==
  /\ l <= Len(Rec)
  /\ LET e == Rec[l]
     IN  IF NeedsM(e) /\ ~(cur.valid /\ cur.b = e.b)
         THEN /\ cur' = [valid |-> TRUE, b |-> e.b, m |-> MInit]
              /\ UNCHANGED << l, cov >>
         ELSE IF NeedsM(e) /\ ~MDone(cur.m)
         THEN /\ cur' = [cur EXCEPT !.m = MStep(cur.b, cur.m)]
              /\ cov' = [cov EXCEPT !["machine-steps"] = @ + 1]
              /\ UNCHANGED l
         ELSE /\ Check(l, e, cur.m)
              /\ l' = l + 1
              /\ cov' = BumpAll(cov, KeysOf(e, cur.m), 1)
              /\ UNCHANGED cur

Done == l = Len(Rec) + 1 => PrintT(<< "TRACE-DONE", ToJson([lines |-> l - 1, cov |-> cov]) >>)
=============================================================================
