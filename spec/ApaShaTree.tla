----------------------------- MODULE ApaShaTree -----------------------------
(***************************************************************************)
(* C23, unbounded part (Apalache).                                         *)
(*                                                                         *)
(* MCShaTree.tla established with TLC, by running the interpreter machine  *)
(* on every tree of a bounded universe, that the two costs obey            *)
(*    CL(atom of n bytes)  = CLAtomA + CLAtomB * n                         *)
(*    CL(pair(l, r))       = CL(l) + CL(r) + CLPairK                       *)
(*    NAT(atom of n bytes) = NatW + 590 + perByte * (n + 1)                *)
(*    NAT(pair(l, r))      = NAT(l) + NAT(r) + 460 - (NatW + 590)          *)
(* (NatW = 21: operator dispatch 1 + quote 20 of the program               *)
(* (sha256tree (q . X)); 590 = 270 base + 320 for the 32-byte result).     *)
(* Here these recurrences DEFINE the costs of all trees.  A tree is        *)
(* abstracted to (p, b, cl, nat): number of pairs, total number of atom    *)
(* bytes, ChiaLisp cost, native cost.  The machine below builds every tree *)
(* bottom-up: Init is an atom of arbitrary length; Pair combines the tree  *)
(* with an arbitrary other tree (which satisfies the induction hypothesis  *)
(* Shape); AddByte lengthens one atom; AddPair hangs an empty atom on.     *)
(*                                                                         *)
(* Obligations (engines/lemmas.py runs each with apalache-mc check):       *)
(*   1  Init              => Shape            --init=Init    --inv=Shape   --length=0 *)
(*   2  Shape /\ Next     => Shape'           --init=IndInit --inv=Shape   --length=1 *)
(*   3  Shape             => Cheaper          --init=IndInit --inv=Cheaper --length=0 *)
(*   4  Shape             => Margin           --init=IndInit --inv=Margin  --length=0 *)
(* 1+2: every tree's costs are the closed forms in (p, b) (structural      *)
(* induction); 3: for ALL p, b in Nat and both cost models the native cost *)
(* is strictly smaller.  4 states the exact difference.                    *)
(* The constants are the ones of MCShaTree.tla (lemmas.py compares them).  *)
(***************************************************************************)
EXTENDS Integers

VARIABLES
  \* @type: Bool;
  new,
  \* @type: Int;
  p,
  \* @type: Int;
  b,
  \* @type: Int;
  cl,
  \* @type: Int;
  nat

\* ---- constants read off the TLC model (old cost model / NEW_COST_MODEL) ----
\* @type: (Bool, Int) => Int;
CLAtom(nw, n) == IF nw THEN 3085 + 6 * n ELSE 1638 + 2 * n
\* @type: (Bool, Int, Int) => Int;
CLPair(nw, l, r) == IF nw THEN l + r + 3141 ELSE l + r + 1412
\* @type: (Bool, Int) => Int;
NatAtom(nw, n) == IF nw THEN 21 + 590 + 6 * (n + 1) ELSE 21 + 590 + 2 * (n + 1)
\* @type: (Bool, Int, Int) => Int;
NatPair(nw, l, r) == l + r + 460 - (21 + 590)
\* @type: (Bool) => Int;
CLPerByte(nw) == IF nw THEN 6 ELSE 2
\* @type: (Bool) => Int;
NatPerByte(nw) == IF nw THEN 6 ELSE 2

\* ---- closed forms: p pairs, p + 1 atoms, b bytes ----
\* @type: (Bool, Int, Int) => Int;
CLClosed(nw, pp, bb) ==
  IF nw THEN 3085 * (pp + 1) + 6 * bb + 3141 * pp
        ELSE 1638 * (pp + 1) + 2 * bb + 1412 * pp
\* @type: (Bool, Int, Int) => Int;
NatClosed(nw, pp, bb) ==
  IF nw THEN 21 + 590 + 460 * pp + 6 * (bb + pp + 1)
        ELSE 21 + 590 + 460 * pp + 2 * (bb + pp + 1)

Init ==
  /\ new \in BOOLEAN
  /\ \E n \in Nat :
       /\ p = 0
       /\ b = n
       /\ cl = CLAtom(new, n)
       /\ nat = NatAtom(new, n)

\* combine with any other tree (p2, b2) that satisfies the induction hypothesis, on either side
Pair ==
  \E p2 \in Nat, b2 \in Nat :
    /\ p' = p + p2 + 1
    /\ b' = b + b2
    /\ cl' = CLPair(new, cl, CLClosed(new, p2, b2))
    /\ nat' = NatPair(new, nat, NatClosed(new, p2, b2))
    /\ new' = new

\* one atom of the tree becomes one byte longer (both recurrences are affine in the length)
AddByte ==
  /\ p' = p
  /\ b' = b + 1
  /\ cl' = cl + CLPerByte(new)
  /\ nat' = nat + NatPerByte(new)
  /\ new' = new

\* the tree is paired with an empty atom
AddPair ==
  /\ p' = p + 1
  /\ b' = b
  /\ cl' = CLPair(new, cl, CLAtom(new, 0))
  /\ nat' = NatPair(new, nat, NatAtom(new, 0))
  /\ new' = new

Next == Pair \/ AddByte \/ AddPair

Shape ==
  /\ p >= 0
  /\ b >= 0
  /\ cl = CLClosed(new, p, b)
  /\ nat = NatClosed(new, p, b)

\* every (p, b) in Nat x Nat with the closed-form costs, both cost models
IndInit ==
  /\ new \in BOOLEAN
  /\ p \in Nat
  /\ b \in Nat
  /\ cl = CLClosed(new, p, b)
  /\ nat = NatClosed(new, p, b)

\* C23
Cheaper == nat < cl

\* the exact difference: independent of the bytes (equal per-byte prices), growing with the pairs
Margin == cl - nat = (IF new THEN 2468 + 5760 * p ELSE 1025 + 2588 * p)
=============================================================================
