----------------------------- MODULE MCBigInt -----------------------------
(* Self-check of BigInt against TLC's native integers on a small exhaustive *)
(* range, plus wide fixed vectors (computed independently).                 *)
EXTENDS BigInt, TLC

R == -300..300
ToI(z) == IF z[1] THEN 0 - NToInt(z[2]) ELSE NToInt(z[2])

\* native floor div/mod (TLA+ \div and % are floor for positive divisor only)
FloorDiv(a, b) == IF b > 0 THEN a \div b ELSE (0 - a) \div (0 - b)
FloorMod(a, b) == a - b * FloorDiv(a, b)

ASSUME \A a \in R, b \in R :
  /\ ToI(ZAdd(ZI(a), ZI(b))) = a + b
  /\ ToI(ZSub(ZI(a), ZI(b))) = a - b
  /\ ToI(ZMul(ZI(a), ZI(b))) = a * b
  /\ ZCmp(ZI(a), ZI(b)) = (IF a < b THEN -1 ELSE IF a > b THEN 1 ELSE 0)
  /\ b # 0 => LET qr == ZDivModFloor(ZI(a), ZI(b))
              IN  /\ ToI(qr[1]) = FloorDiv(a, b)
                  /\ ToI(qr[2]) = FloorMod(a, b)
                  /\ a = ToI(qr[1]) * b + ToI(qr[2])
                  /\ (ToI(qr[2]) = 0 \/ (ToI(qr[2]) < 0) = (b < 0))

ASSUME \A a \in -40000..40000 :
  /\ ZFromAtom(ZToAtom(ZI(a))) = ZI(a)
  /\ LET e == ZToAtom(ZI(a))
     IN  \/ Len(e) <= 1 /\ (a = 0 <=> e = <<>>)
         \/ Len(e) >= 2 /\ ~(e[1] = 0 /\ e[2] < 128) /\ ~(e[1] = 255 /\ e[2] >= 128)

\* bit operations against the definition via two's complement on 16 bits
Bit(a, k) == ((a + 65536) \div (2^k)) % 2
NatOf16(f(_)) == LET S[k \in 0..16] == IF k = 16 THEN 0 ELSE f(k) * 2^k + S[k+1] IN S[0]
Sgn16(u) == IF u >= 32768 THEN u - 65536 ELSE u
ASSUME \A a \in R, b \in R :
  /\ ToI(ZAnd(ZI(a), ZI(b))) = Sgn16(LET F(k) == Bit(a,k) * Bit(b,k) IN NatOf16(F))
  /\ ToI(ZOr(ZI(a), ZI(b)))  = Sgn16(LET F(k) == IF Bit(a,k) + Bit(b,k) > 0 THEN 1 ELSE 0 IN NatOf16(F))
  /\ ToI(ZXor(ZI(a), ZI(b))) = Sgn16(LET F(k) == (Bit(a,k) + Bit(b,k)) % 2 IN NatOf16(F))
  /\ ToI(ZNot(ZI(a))) = 0 - a - 1

ASSUME \A a \in R, k \in 0..12 :
  /\ ToI(ZShl(ZI(a), k)) = a * 2^k
  /\ ToI(ZShrFloor(ZI(a), k)) = a \div (2^k)

RECURSIVE Pw(_, _)
Pw(b, e) == IF e = 0 THEN 1 ELSE b * Pw(b, e - 1)
ASSUME \A b \in -20..20, e \in 0..6, m \in -20..20 :
  m # 0 => ToI(ZModPow(ZI(b), ZI(e), ZI(m))) = FloorMod(Pw(b, e), m)

\* wide vectors (python3: int.to_bytes little endian)
ASSUME NMul(<<255,255,255,255,255,255,255,255>>, <<255,255,255,255,255,255,255,255>>)
        = <<1,0,0,0,0,0,0,0,254,255,255,255,255,255,255,255>>
ASSUME NDivMod(<<1,0,0,0,0,0,0,0,254,255,255,255,255,255,255,255>>, <<255,255,255,255,255,255,255,255>>)
        = << <<255,255,255,255,255,255,255,255>>, <<>> >>
ASSUME NDivMod(<<21,205,91,7,0,0,0,0,1>>, <<177,104,222,58>>) = << <<246,105,65,89,4>>, <<255,153,193,30>> >>
ASSUME ZToAtom(ZI(-129)) = <<255,127>> /\ ZToAtom(ZI(-128)) = <<128>> /\ ZToAtom(ZI(128)) = <<0,128>>
ASSUME ZFromAtom(<<0,0,255>>) = ZI(255) /\ ZFromAtom(<<255,255,128>>) = ZI(-128) /\ ZFromAtom(<<255>>) = ZI(-1)
ASSUME NBits(N(255)) = 8 /\ NBits(N(256)) = 9 /\ NBits(<<>>) = 0
=============================================================================
