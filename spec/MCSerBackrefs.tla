--------------------------- MODULE MCSerBackrefs ---------------------------
(***************************************************************************)
(* Bounded model of SerBackrefs (C17, C18 at design level) + CASE emission. *)
(*                                                                         *)
(* One behaviour = one input byte string run through the three machines in  *)
(* lockstep (vec-stack decoder, legacy list-stack decoder, length probe),   *)
(* one TLC state per loop iteration of the real code.                       *)
(*                                                                         *)
(* MODE=bytes  the inputs are all byte strings up to MaxLen bytes that are  *)
(*   *attempts at one item*: a string is extended by one byte only while    *)
(*   the declarative parser DecodeBR reports "input ended, I was waiting    *)
(*   for <item|path|bytes>", the next byte ranging over the alphabet of     *)
(*   that position class (plus one junk byte after every complete string).  *)
(*   Strings that begin with a 3..7-byte length prefix are added as extra    *)
(*   starting points (EdgeStarts).                                          *)
(* MODE=trees  the inputs are all outputs the serializer relation SerRel    *)
(*   allows for every tree of the universe (all trees up to MaxNodes nodes  *)
(*   over four atoms, and spine/list families that reach the path-length    *)
(*   boundaries of the emission rule); exp carries the tree.                *)
(*                                                                         *)
(* Invariants: Refine (step-wise correspondence of the three machines,      *)
(* ghost-pair parity at every step), Final (same accept set / tree / pair   *)
(* count / consumed, equal to the declarative meaning; probe length =       *)
(* consumed; both canonical predicates agree; for serializer outputs:       *)
(* decodes to the tree, all input consumed, canonical, not longer than      *)
(* classic, emission rule holds), Bounded (termination).                    *)
(***************************************************************************)
EXTENDS SerBackrefs, TLC, Json, IOUtils

VARIABLES inp, exp, k, mv, ml, mp
vars == << inp, exp, k, mv, ml, mp >>

Env(n, d) == IF n \in DOMAIN IOEnv THEN IOEnv[n] ELSE d
Mode == Env("MODE", "bytes")
Tier == Env("TIER", "quick")
Thorough == Tier = "thorough"

MaxLen == IF Thorough THEN 9 ELSE 8
MaxNodes == IF Thorough THEN 9 ELSE 7

\* position-class alphabets
ItemAlpha == {255, 254, 128, 1, 2, 129, 130} \cup (IF Thorough THEN {192, 127} ELSE {})
PathAlpha == {0, 1, 2, 3, 4, 5, 6, 7, 128, 129, 130, 254, 255}
               \cup (IF Thorough THEN {9, 11, 15, 192} ELSE {})
ByteAlpha == {0, 2, 5, 128}

\* long length prefixes (3..6 bytes, and the illegal 7-byte one) are not in the alphabets; these
\* starts are extended like any other string (size/content bytes range over ByteAlpha)
EdgeStarts == {<< 224 >>, << 240 >>, << 248 >>, << 252 >>, << 252, 4 >>, << 252, 3 >>, << 253 >>,
               << 254, 224 >>, << 254, 240 >>, << 254, 248 >>, << 254, 252 >>, << 254, 252, 4 >>,
               << 255, 1, 254, 224 >>, << 255, 224 >>}

LongPrefix == {224, 240, 248, 252, 253}
\* strings that start with a long prefix are not extended beyond 8 bytes
Cap(b) == IF b # << >> /\ (b[1] \in LongPrefix \/ (Len(b) >= 2 /\ b[1] = 254 /\ b[2] \in LongPrefix))
          THEN 8 ELSE MaxLen

NoExp == [has |-> FALSE, t |-> Nil, code |-> << >>, nrel |-> 0, minlen |-> 0]

ExtAlpha(d) ==
  IF d.st = "eof"
  THEN (CASE d.want = "item" -> ItemAlpha [] d.want = "path" -> PathAlpha [] OTHER -> ByteAlpha)
  ELSE IF d.st = "ok" /\ d.pos = Len(inp) THEN {0}          \* one junk byte after a complete item
  ELSE { }

---------------------------------------------------------------------------
(* tree universe *)
TAtoms == {Nil, Atom(<< 1 >>), Atom(<< 97, 98, 99 >>), Atom(<< 200 >>)}

RECURSIVE TreesN(_)
TreesN(n) ==
  IF n = 1 THEN TAtoms
  ELSE UNION {{Pair(l, r) : l \in TreesN(i), r \in TreesN(n - 1 - i)} : i \in {j \in 1..(n - 2) : j % 2 = 1}}

B3 == Atom(<< 97, 98, 99 >>)           \* classic length 4
B4 == Atom(<< 97, 98, 99, 100 >>)      \* classic length 5
Small(i) == Atom(<< i + 1 >>)          \* distinct one-byte atoms

\* (x a1 .. ak x . 1): when the second x is written it sits k+1 steps deep in the stack
\* (the improper end keeps the tail (x . 1) different from the stack's own tail (x . nil))
RECURSIVE ListFrom(_, _, _)
ListFrom(x, i, kk) == IF i > kk THEN Pair(x, Atom(<< 1 >>)) ELSE Pair(Small(i), ListFrom(x, i + 1, kk))
FamR(x, kk) == Pair(x, ListFrom(x, 1, kk))
\* ((((x . a1) . a2) .. ak) . x): same depth through a left spine
RECURSIVE LeftSpine(_, _)
LeftSpine(x, i) == IF i = 0 THEN x ELSE Pair(LeftSpine(x, i - 1), Small(i))
FamL(x, kk) == Pair(LeftSpine(x, kk), x)
\* list of m copies of (x . 1)
RECURSIVE Rep(_, _)
Rep(x, m) == IF m = 0 THEN Nil ELSE Pair(Pair(x, Atom(<< 1 >>)), Rep(x, m - 1))

\* shapes whose serialization refers to the parse stack *itself* (path 1 and other tails of the
\* stack list) more than once, around a cons: (X X) with X a list, lists of identical sub-lists,
\* (L . L), and the list-doubling T(n+1) = (T(n) T(n))
L2(x, y) == Pair(x, Pair(y, Nil))
RECURSIVE ListDouble(_, _)
ListDouble(x, n) == IF n = 0 THEN x ELSE L2(ListDouble(x, n - 1), ListDouble(x, n - 1))
RECURSIVE RepSub(_, _)
RepSub(x, m) == IF m = 0 THEN Nil ELSE Pair(x, RepSub(x, m - 1))
StackShapes ==
  {ListDouble(x, 2) : x \in {B3, Pair(B3, Nil), L2(B3, Atom(<< 1 >>))}}
    \cup {RepSub(Pair(B3, Nil), m) : m \in 2..3}
    \cup {Pair(L2(B3, B3), L2(B3, B3)), L2(B3, B3)}

Families ==
  StackShapes \cup
  {FamR(B3, kk) : kk \in {5, 6, 14, 15}} \cup {FamL(B3, kk) : kk \in {5, 6, 14, 15}}
    \cup {FamR(B4, kk) : kk \in {22, 23}} \cup {FamL(B4, kk) : kk \in {22, 23}}
    \cup {Rep(B3, m) : m \in 2..4}

Trees == UNION {TreesN(n) : n \in {j \in 1..MaxNodes : j % 2 = 1}} \cup Families

MinLen(S) == CHOOSE n \in {Len(x) : x \in S} : \A m \in {Len(x) : x \in S} : n <= m

---------------------------------------------------------------------------
Start == /\ k = 0 /\ mv = VInit /\ ml = LInit /\ mp = PInit

Init ==
  IF Mode = "bytes"
  THEN inp \in ({<< >>} \cup EdgeStarts) /\ exp = NoExp /\ Start
  ELSE /\ \E t \in Trees :
            LET rel  == SerRel(t, Nil)
                code == SerCode(t)
            IN  /\ Assert(code \in rel, << "SerCode(t) is not in SerRel(t)", t, code >>)
                /\ Assert(ClassicEnc(t) \in rel, << "classic not in SerRel(t)", t >>)
                /\ Assert(Len(ClassicEnc(t)) = ClassicLen(t), << "ClassicLen", t >>)
                /\ inp \in rel
                /\ exp = [has |-> TRUE, t |-> t, code |-> code, nrel |-> Cardinality(rel), minlen |-> MinLen(rel)]
       /\ Start

Running == "run" \in {mv.st, ml.st, mp.st}      \* (not a disjunction: TLC would split the action)

Extend ==
  /\ k = 0 /\ ~exp.has /\ Len(inp) < Cap(inp)
  /\ \E c \in ExtAlpha(DecodeBR(inp)) : inp' = Append(inp, c)
  /\ UNCHANGED << exp, k, mv, ml, mp >>

StepAll ==
  /\ Running
  /\ mv' = IF mv.st = "run" THEN VStep(inp, mv, TRUE) ELSE mv
  /\ ml' = IF ml.st = "run" THEN LStep(inp, ml) ELSE ml
  /\ mp' = IF mp.st = "run" THEN PStep(inp, mp) ELSE mp
  /\ k' = k + 1
  /\ UNCHANGED << inp, exp >>

Next == Extend \/ StepAll

---------------------------------------------------------------------------
Emit(r) == PrintT(<< "CASE", ToJson(r) >>)

\* step-wise correspondence of the three designs (refinement), incl. ghost-pair parity
Refine ==
  /\ VWellFormed(mv)
  /\ mv.st = ml.st /\ ml.st = mp.st
  /\ mv.err = ml.err /\ ml.err = mp.err
  /\ VPairCount(mv) = ml.pairs
  /\ mv.st = "run" =>
       /\ mv.pos = ml.pos /\ ml.pos = mp.pos
       /\ mv.ops = ml.ops /\ ml.ops = mp.ops
       /\ ListOf(mv.vals, Len(mv.vals)) = ml.vals
       /\ Shadow(ml.vals) = mp.vals

Bounded == k <= 2 * Len(inp) + 2 /\ mv.pos <= Len(inp)

Final ==
  ~Running =>
    LET d  == DecodeBR(inp)
        ok == mv.st = "ok"
    IN  /\ ok = (d.st = "ok")
        /\ ~ok => mv.err = d.st
        /\ ok => /\ mv.res = d.t /\ ml.res = d.t
                 /\ mv.pos = d.pos /\ ml.pos = d.pos /\ mp.res = d.pos
                 /\ d.pc = 3 * ((NodeCount(d.t) + 1) \div 2) - 2 \/ mv.brs > 0
        /\ VPairCount(mv) = d.pc /\ ml.pairs = d.pc
        /\ IsCanonicalCode(inp) = IsCanonical(inp)
        /\ ok => (IsCanonical(inp) = (mv.min /\ mv.pos = Len(inp)))      \* the machine's observer
        /\ exp.has =>
             /\ ok /\ mv.res = exp.t                    \* decodes to the tree
             /\ mv.pos = Len(inp)                       \* nothing left over
             /\ IsCanonical(inp)
             /\ Len(inp) <= ClassicLen(exp.t)           \* never grows
             /\ mv.rule
             /\ exp.minlen <= Len(exp.code)
        /\ Emit([kind |-> "bytes", b |-> inp, ok |-> ok, t |-> IF ok THEN mv.res ELSE Nil,
                 pc |-> VPairCount(mv), used |-> IF ok THEN mv.pos ELSE 0,
                 canon |-> IsCanonicalCode(inp), brs |-> mv.brs, mat |-> mv.mat, reuse |-> mv.reuse,
                 err |-> mv.err])
        /\ (exp.has /\ inp = exp.code) =>
             Emit([kind |-> "tree", t |-> exp.t, code |-> exp.code, nrel |-> exp.nrel,
                   minlen |-> exp.minlen, classic |-> ClassicLen(exp.t)])
=============================================================================
