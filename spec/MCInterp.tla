------------------------------ MODULE MCInterp ------------------------------
(***************************************************************************)
(* Bounded model checking of the run_program machine (Interp.tla) by       *)
(* SELF-COMPOSITION, and emission of the expected outcome of every run for *)
(* replay into the implementation (spec -> impl).                          *)
(*                                                                         *)
(* One behaviour per element of ProgUniverse!UniverseSeq.  The state holds,   *)
(* for ONE (program, environment), one copy of the machine per             *)
(* configuration; every Next step advances every unfinished copy by one    *)
(* Interp!Step (lockstep).                                                 *)
(*   phase 1   base (chia, {})  new (NEW_COST_MODEL)  strict  hf  unaware  *)
(*             runtime  and two fixed budgets (1, 700)                     *)
(*   phase 2   once base / new have finished successfully with cost C:     *)
(*             budgets C-1, C, C+1 of each, and (IOEnv.PARTIAL # "0") one  *)
(*             run per distinct intermediate cost of the base run (the     *)
(*             places where a budget check can fire)                       *)
(* The relations between the final outcomes are the invariants (design     *)
(* level statements of C02 C07 C08 C11 C25 C30 C31 on the specification).  *)
(* Each copy is wrapped with a small observer (shadow stack of guard       *)
(* entries) so that C31 is checked at the very step a guard completes.     *)
(***************************************************************************)
EXTENDS Interp, ProgUniverse, Json

\* (variable names: see the note in MCRefEval.tla - they must not coincide with any formal parameter name of the
\* extended modules, or TLC stops treating the universe as a constant)
VARIABLES vU, vRuns, vPhase
vars == << vU, vRuns, vPhase >>

StepBound == 400
Partial == IF "PARTIAL" \in DOMAIN IOEnv THEN IOEnv.PARTIAL # "0" ELSE TRUE
Emit == IF "EMIT" \in DOMAIN IOEnv THEN IOEnv.EMIT # "0" ELSE TRUE

Cfg(name, dialect, flags, budget, ref) == [name |-> name, dialect |-> dialect, flags |-> flags, budget |-> budget, ref |-> ref]
SetOf(s) == {s[i] : i \in 1..Len(s)}

\* phase-1 configurations; ref = index of the run a budgeted run is compared with (0: none)
Configs1 == <<
  Cfg("base", "chia", << >>, << >>, 0),
  Cfg("new", "chia", << "NEW_COST_MODEL" >>, << >>, 0),
  Cfg("strict", "chia", << "NO_UNKNOWN_OPS", "CANONICAL_INTS", "LIMIT_SOFTFORK", "DISABLE_OP" >>, << >>, 0),
  Cfg("hf", "chia", << "ENABLE_KECCAK_OPS_OUTSIDE_GUARD", "ENABLE_SHA256_TREE" >>, << >>, 0),
  Cfg("unaware", "unaware", << >>, << >>, 0),
  Cfg("runtime", "runtime", << >>, << >>, 0),
  Cfg("b1", "chia", << >>, N(1), 1),
  Cfg("b700", "chia", << >>, N(700), 1) >>
IBase == 1   INew == 2   IStrict == 3   IHf == 4   IUnaware == 5   IRuntime == 6

---------------------------------------------------------------------------
(* the allocator counters after the harness has built program and environment on a fresh allocator *)
RECURSIVE TreeAtoms(_), TreePairs(_), TreeBytes(_)
TreeAtoms(t) == IF IsAtom(t) THEN 1 ELSE TreeAtoms(t.f) + TreeAtoms(t.r)
TreePairs(t) == IF IsAtom(t) THEN 0 ELSE 1 + TreePairs(t.f) + TreePairs(t.r)
TreeBytes(t) == IF IsAtom(t) THEN Len(t.a) ELSE TreeBytes(t.f) + TreeBytes(t.r)
Al0(x) == [atoms |-> FreshAl.atoms + TreeAtoms(x.p) + TreeAtoms(x.e), pairs |-> TreePairs(x.p) + TreePairs(x.e),
           heap |-> FreshAl.heap + TreeBytes(x.p) + TreeBytes(x.e), limit |-> -1]

\* a machine with its observer: h = shadow stack of guard entries, c31 = every completed guard so far
\* pushed nil, restored the counters of its entry and (unless cost-exempt) cost exactly the declared cost;
\* pc = the distinct running costs seen (recorded for the base run only)
Wrap(x, c) == [c |-> c, m |-> Start(x.p, x.e, c.budget, SetOf(c.flags), c.dialect, Al0(x), << >>),
               h |-> << >>, c31 |-> TRUE, exits |-> 0, pc |-> << >>]

Running(w) == w.m.status = "run"
AllDone(mm) == \A i \in 1..Len(mm) : ~Running(mm[i])

StepW(w) ==
  LET s == w.m
      s2 == Step(s)
      top == IF s.ops = << >> THEN "" ELSE Last(s.ops)
      costok == ~NGt(s.cost, EffectiveMax(s))
      entered == costok /\ top = "apply" /\ Len(s2.sf) = Len(s.sf) + 1
      exited == costok /\ top = "exit" /\ s2.status = "run"
      h2 == IF entered
            THEN Append(w.h, [al |-> s.al, cost |-> s.cost, declared |-> NFromBE(s.val[Len(s.val)].f.a),
                              exempt |-> Last(s2.sf).set = "prehf"])
            ELSE IF exited THEN Front(w.h) ELSE w.h
      okexit == IF ~exited THEN TRUE
                ELSE /\ w.h # << >>
                     /\ LET g == Last(w.h)
                        IN  /\ Last(s2.val) = Nil
                            /\ Len(s2.val) = Len(s.val)
                            /\ s2.al = g.al
                            /\ Len(s2.sf) = Len(s.sf) - 1
                            /\ (g.exempt \/ s2.cost = NAdd(g.cost, g.declared))
      pc2 == IF w.c.name = "base" /\ (w.pc = << >> \/ Last(w.pc) # s.cost) THEN Append(w.pc, s.cost) ELSE w.pc
  IN  [w EXCEPT !.m = s2, !.h = h2, !.c31 = @ /\ okexit, !.exits = @ + (IF exited THEN 1 ELSE 0), !.pc = pc2]

---------------------------------------------------------------------------
(* phase 2: budgeted runs derived from the finished base / new runs *)
IsOk(w) == w.m.status = "ok"
Around(C) == << NSub(C, << 1 >>), C, NAddI(C, 1) >>

RECURSIVE Dedup(_, _)
Dedup(s, seen) == IF s = << >> THEN << >>
                  ELSE IF s[1] \in seen THEN Dedup(Tail(s), seen)
                  ELSE << s[1] >> \o Dedup(Tail(s), seen \cup {s[1]})

BudgetCfgs(mm) ==
  LET b == mm[IBase]
      n == mm[INew]
      bb == IF IsOk(b) THEN Around(b.m.cost) ELSE << >>
      nb == IF IsOk(n) THEN Around(n.m.cost) ELSE << >>
      \* every intermediate cost p of the base run with 0 < p < C - 1 (C-1, C, C+1 are there already)
      pp == IF IsOk(b) /\ Partial
            THEN Dedup(SelectSeq(b.pc, LAMBDA p : p # << >> /\ NLt(NAddI(p, 1), b.m.cost)), {})
            ELSE << >>
  IN  [i \in 1..Len(bb) |-> Cfg("bb", "chia", << >>, bb[i], IBase)]
        \o [i \in 1..Len(nb) |-> Cfg("nb", "chia", << "NEW_COST_MODEL" >>, nb[i], INew)]
        \o [i \in 1..Len(pp) |-> Cfg("bp", "chia", << >>, pp[i], IBase)]

NextMs(mm, ph, x) ==
  IF ph = 0 THEN [i \in 1..Len(Configs1) |-> Wrap(x, Configs1[i])]
  ELSE IF ~AllDone(mm) THEN [i \in 1..Len(mm) |-> IF Running(mm[i]) THEN StepW(mm[i]) ELSE mm[i]]
  ELSE \* ph = 1 and everything finished: add the budgeted runs
       LET cs == BudgetCfgs(mm) IN mm \o [i \in 1..Len(cs) |-> Wrap(x, cs[i])]
NextPhase(mm, ph) == IF ph = 0 THEN 1 ELSE IF AllDone(mm) THEN 2 ELSE ph

Final == vPhase = 2 /\ AllDone(vRuns)

Init == /\ \E i \in 1..Len(UniverseSeq) : vU = UniverseSeq[i]
        /\ vRuns = << >>              \* the runs are created by the first step (initial states are computed by one thread)
        /\ vPhase = 0

Next == /\ ~Final
        /\ vRuns' = NextMs(vRuns, vPhase, vU)
        /\ vPhase' = NextPhase(vRuns, vPhase)
        /\ vU' = vU

---------------------------------------------------------------------------
(* invariants *)
St(i) == vRuns[i].m
Decided(s) == s.status \in {"ok", "err"}
SameOk(a, b) == a.status = "ok" /\ b.status = "ok" /\ a.cost = b.cost /\ Last(a.val) = Last(b.val)
SameCounters(a, b) == a.al.atoms = b.al.atoms /\ a.al.pairs = b.al.pairs /\ a.al.heap = b.al.heap

\* C25: every run terminates within the step bound, in a final status, never with InternalError
InvC25 == /\ \A i \in 1..Len(vRuns) : St(i).steps <= StepBound
          /\ Final => \A i \in 1..Len(vRuns) : /\ St(i).status \in {"ok", "err", "abstain"}
                                            /\ ~(St(i).status = "err" /\ St(i).kind = "InternalError")
                                            /\ (St(i).status = "ok" => Len(St(i).val) = 1 /\ St(i).env = << >> /\ St(i).sf = << >>)

\* C02: a run with budget M against the unlimited run of the same configuration
BudgetRel(r, b, M) ==
  (Decided(r) /\ Decided(b)) =>
    /\ b.status = "ok" => (SameOk(b, r) /\ NLe(b.cost, M))
    /\ (b.status = "err" /\ r.status = "ok") => b.kind = "CostExceeded"
    /\ (r.status = "ok" /\ ~r.exempt /\ NGe(M, r.cost)) => b.status = "ok"
    /\ (r.status = "ok" /\ ~r.exempt /\ NLt(M, r.cost)) => b.status = "err"
InvC02 == Final => \A i \in 1..Len(vRuns) : vRuns[i].c.ref # 0 => BudgetRel(St(vRuns[i].c.ref), St(i), vRuns[i].c.budget)

\* C07: the restriction flags only remove successes
InvC07 == Final => (St(IStrict).status = "ok" => (St(IBase).status = "abstain" \/ SameOk(St(IStrict), St(IBase))))

\* C08: whatever the extension-aware dialect accepts, the unaware one accepts with the same result, cost and counters
InvC08 == Final => ((St(IBase).status = "ok" /\ St(IUnaware).status # "abstain")
                      => (SameOk(St(IBase), St(IUnaware)) /\ SameCounters(St(IBase), St(IUnaware))))

\* C11: results do not depend on the cost model
InvC11 == Final => ((St(IBase).status = "ok" /\ St(INew).status = "ok") => Last(St(IBase).val) = Last(St(INew).val))

\* C30: RuntimeDialect with the standard table = ChiaDialect unless an operator outside the table was applied
InvC30 == Final => ((Decided(St(IBase)) /\ Decided(St(IRuntime)) /\ ~St(IBase).beyond /\ ~St(IRuntime).beyond)
                      => Outcome(St(IRuntime)) = Outcome(St(IBase)))

\* C31: checked by the observer at every completed guard; a successful run has left all its guards
InvC31 == \A i \in 1..Len(vRuns) : /\ vRuns[i].c31
                                /\ (Final /\ St(i).status = "ok") => (vRuns[i].h = << >> /\ vRuns[i].exits = St(i).guards)

---------------------------------------------------------------------------
(* case emission: one CASES line per (program, environment) with every run of it *)
Expect(w) ==
  LET s == w.m
  IN  CASE s.status = "ok" -> [st |-> "ok", cost |-> s.cost, val |-> Last(s.val),
                               atoms |-> s.al.atoms, pairs |-> s.al.pairs, heap |-> s.al.heap]
        [] s.status = "err" -> [st |-> "err", kind |-> s.kind]
        [] OTHER -> [st |-> "abstain"]
\* the configuration of a run is identified by its name (flags and dialect are printed once, in the CONFIGS line)
RunRec(w) == [n |-> w.c.name, b |-> w.c.budget, x |-> Expect(w),
              s |-> w.m.steps, g |-> w.exits, e |-> w.m.exempt, y |-> w.m.beyond]
EmitCases == Final => (IF Emit THEN PrintT(<< "CASES", ToJson([prog |-> vU.p, env |-> vU.e, cls |-> vU.k,
                                                                runs |-> [i \in 1..Len(vRuns) |-> RunRec(vRuns[i])]]) >>)
                       ELSE TRUE)

ConfigTable == [i \in 1..Len(Configs1) |-> [name |-> Configs1[i].name, dialect |-> Configs1[i].dialect, flags |-> Configs1[i].flags]]
                 \o << [name |-> "bb", dialect |-> "chia", flags |-> << >>],
                       [name |-> "nb", dialect |-> "chia", flags |-> << "NEW_COST_MODEL" >>],
                       [name |-> "bp", dialect |-> "chia", flags |-> << >>] >>
ASSUME PrintT(<< "CONFIGS", ToJson(ConfigTable) >>)
=============================================================================
