----------------------------- MODULE SerBackrefs -----------------------------
(***************************************************************************)
(* CLVM serialization with back-references (properties C17, C18).          *)
(*                                                                         *)
(* Format: the classic serialization (0xff cons, atoms with length         *)
(* prefixes, 0x80 nil) plus `0xfe <atom>`, where the atom is a CLVM         *)
(* environment path into the *parse stack*: the CLVM list of the values     *)
(* parsed so far, most recent first.                                       *)
(*                                                                         *)
(* Contents (each part is written from the code named next to it)          *)
(*   1  trees, classic atom prefix encode/decode  (write_atom.rs,           *)
(*      parse_atom.rs, serialized_length.rs)                               *)
(*   2  paths (traverse_path.rs, de_br.rs traverse_path_with_vec)           *)
(*   3  (a) vec-stack decoder machine     de_br.rs node_from_stream_backrefs*)
(*      (b) legacy list-stack machine     de_br.rs .._backrefs_old          *)
(*      (c) length probe, shadow tree     tools.rs serialized_length_from_bytes *)
(*   4  (d) the declarative meaning DecodeBR (recursive descent, the stack  *)
(*      is a list), canonical predicate (tools.rs is_canonical_serialization*)
(*      and its declarative reading)                                       *)
(*   5  (e) the serializer: relation SerRel (every output that the emission *)
(*      rule allows), and the code's deterministic choice SerCode           *)
(*      (ser_br.rs + read_cache_lookup.rs), which is a diagnostic only      *)
(*                                                                         *)
(* Conventions: a tree is [a |-> bytes] or [f |-> T, r |-> T]; `pos` is the *)
(* number of bytes consumed (cursor position); indices into byte strings    *)
(* are 1-based.  Machines: one Step per iteration of the real loop; the     *)
(* operation stack and the vec stack have their top at the END.            *)
(***************************************************************************)
EXTENDS BigInt, FiniteSets

---------------------------------------------------------------------------
(* 1. trees and classic atoms                                               *)

IsAtom(t) == "a" \in DOMAIN t
Atom(b) == [a |-> b]
Pair(x, y) == [f |-> x, r |-> y]
Nil == [a |-> << >>]

RECURSIVE NodeCount(_)
NodeCount(t) == IF IsAtom(t) THEN 1 ELSE 1 + NodeCount(t.f) + NodeCount(t.r)

\* write_atom.rs: length prefix for an atom of n bytes whose first byte is `first`
\* (sizes stay below 2^31 inside TLC, so the top digit of the 5-byte prefix is 0)
AtomPrefix(n, first) ==
  IF n = 0 THEN << 128 >>
  ELSE IF n = 1 /\ first < 128 THEN << >>
  ELSE IF n < 64 THEN << 128 + n >>
  ELSE IF n < 8192 THEN << 192 + (n \div 256), n % 256 >>
  ELSE IF n < 1048576 THEN << 224 + (n \div 65536), (n \div 256) % 256, n % 256 >>
  ELSE IF n < 134217728
       THEN << 240 + (n \div 16777216), (n \div 65536) % 256, (n \div 256) % 256, n % 256 >>
  ELSE << 248, n \div 16777216, (n \div 65536) % 256, (n \div 256) % 256, n % 256 >>

AtomEnc(b) == IF b = << >> THEN << 128 >> ELSE AtomPrefix(Len(b), b[1]) \o b

\* serialized_length.rs serialized_length_atom
AtomEncLen(b) ==
  LET n == Len(b) IN
  IF n = 0 \/ (n = 1 /\ b[1] < 128) THEN 1
  ELSE IF n < 64 THEN 1 + n
  ELSE IF n < 8192 THEN 2 + n
  ELSE IF n < 1048576 THEN 3 + n
  ELSE IF n < 134217728 THEN 4 + n
  ELSE 5 + n

\* the classic serialization: definition, and its length (object_cache.rs serialized_length)
RECURSIVE ClassicEnc(_)
ClassicEnc(t) == IF IsAtom(t) THEN AtomEnc(t.a) ELSE << 255 >> \o ClassicEnc(t.f) \o ClassicEnc(t.r)
RECURSIVE ClassicLen(_)
ClassicLen(t) == IF IsAtom(t) THEN AtomEncLen(t.a) ELSE 1 + ClassicLen(t.f) + ClassicLen(t.r)

RECURSIVE LeadingOnes(_)
LeadingOnes(b) == IF b < 128 THEN 0 ELSE 1 + LeadingOnes((b * 2) % 256)

Lim34 == << 0, 0, 0, 0, 4 >>                  \* 0x4_0000_0000

\* parse_atom.rs decode_size_with_offset; b[i] >= 0x80 is the first byte of the prefix.
\* st: "ok" | "eof" (read past the end) | "bad"; k = prefix length; size = Nat (BigInt)
DecodeSize(b, i) ==
  LET k == LeadingOnes(b[i]) IN
  IF k >= 8 THEN [st |-> "bad", k |-> 0, size |-> << >>]
  ELSE IF i + k - 1 > Len(b) THEN [st |-> "eof", k |-> k, size |-> << >>]       \* read_exact of the size bytes
  ELSE IF k > 6 THEN [st |-> "bad", k |-> k, size |-> << >>]
  ELSE LET blob == [j \in 1..k |-> IF j = 1 THEN b[i] % Pow2(8 - k) ELSE b[i + j - 1]]
           sz   == NFromBE(blob)
       IN  IF NGe(sz, Lim34) THEN [st |-> "bad", k |-> k, size |-> sz]
           ELSE [st |-> "ok", k |-> k, size |-> sz]

\* parse_atom.rs parse_atom_ptr: the atom whose first byte is b[i] (any byte value).
\* next = index of the first byte after the atom
ParseAtomAt(b, i) ==
  IF b[i] <= 127 THEN [st |-> "ok", blob |-> << b[i] >>, next |-> i + 1]
  ELSE LET d == DecodeSize(b, i) IN
       IF d.st # "ok" THEN [st |-> d.st, blob |-> << >>, next |-> i]
       ELSE IF ~NFitsInt(d.size) THEN [st |-> "eof", blob |-> << >>, next |-> i]
       ELSE LET n     == NToInt(d.size)
                start == i + d.k
            IN  IF n > Len(b) - start + 1 THEN [st |-> "eof", blob |-> << >>, next |-> i]
                ELSE [st |-> "ok", blob |-> SubSeq(b, start, start + n - 1), next |-> start + n]

---------------------------------------------------------------------------
(* 2. paths                                                                 *)

RECURSIVE FirstNZ(_, _)
FirstNZ(p, i) == IF i > Len(p) THEN i ELSE IF p[i] # 0 THEN i ELSE FirstNZ(p, i + 1)

\* all-zero (or empty) path: the result is nil without looking at the stack
PathIsNil(p) == FirstNZ(p, 1) > Len(p)

\* number of left/right steps: significant bits minus the terminator bit
PathNumSteps(p) == LET z == FirstNZ(p, 1) IN 8 * (Len(p) - z) + BitsOfDigit(p[z]) - 1

\* bit i (0 = least significant bit of the last byte); TRUE = right ("rest")
PathBit(p, i) == ((p[Len(p) - (i \div 8)] \div Pow2(i % 8)) % 2) = 1

\* the steps in the order they are taken (requires ~PathIsNil(p))
PathSteps(p) ==
  LET n == PathNumSteps(p) IN IF n = 0 THEN << >> ELSE [i \in 1..n |-> PathBit(p, i - 1)]

\* traverse_path.rs: follow steps[i..] from t; walking into an atom is an error
RECURSIVE Walk(_, _, _)
Walk(t, steps, i) ==
  IF i > Len(steps) THEN [ok |-> TRUE, n |-> t]
  ELSE IF IsAtom(t) THEN [ok |-> FALSE, n |-> Nil]
  ELSE Walk(IF steps[i] THEN t.r ELSE t.f, steps, i + 1)

TraversePath(p, t) == IF PathIsNil(p) THEN [ok |-> TRUE, n |-> Nil] ELSE Walk(t, PathSteps(p), 1)

\* the path atom (minimal unsigned big-endian) of a step sequence  (read_cache_lookup.rs
\* reversed_path_to_vec_u8 applied to the reversed sequence)
PathBytes(steps) ==
  LET n  == Len(steps)
      nb == (n + 1 + 7) \div 8
      Bit(i) == IF i < n THEN (IF steps[i + 1] THEN 1 ELSE 0) ELSE IF i = n THEN 1 ELSE 0
      ByteAt(j) == LET o == 8 * (nb - j)
                   IN  Bit(o) + 2 * Bit(o + 1) + 4 * Bit(o + 2) + 8 * Bit(o + 3) + 16 * Bit(o + 4)
                       + 32 * Bit(o + 5) + 64 * Bit(o + 6) + 128 * Bit(o + 7)
  IN  [j \in 1..nb |-> ByteAt(j)]

\* serialized_length.rs atom_length_bits(nsteps + 1): bytes of the serialized path atom
PathEncLen(nsteps) ==
  LET bits == nsteps + 1
      nb   == (bits + 7) \div 8
  IN  IF bits < 8 THEN 1
      ELSE IF nb < 64 THEN 1 + nb
      ELSE IF nb < 8192 THEN 2 + nb
      ELSE IF nb < 1048576 THEN 3 + nb
      ELSE IF nb < 134217728 THEN 4 + nb
      ELSE 5 + nb

---------------------------------------------------------------------------
(* 3a. vec-stack decoder: de_br.rs node_from_stream_backrefs                 *)
(* vals: sequence of [n |-> value, lst |-> BOOLEAN]; lst = "the cached list *)
(* Option<NodePtr> is Some": the stack list from this entry down has been   *)
(* materialised with real pairs.  The cached value itself is determined by  *)
(* the entries below (ListOf), so only the flag is state.                   *)
(* real = pairs in the allocator's pair vector, ghost = Allocator::ghost_pairs; *)
(* Allocator::pair_count() = real + ghost.                                  *)
(* mat/reuse: observers (pairs materialised from ghosts; cached list cells   *)
(* found again by a later back-reference) used for coverage classes only.   *)
(* brs/rule: ghost observers for C17 (number of back-references, and "every *)
(* back-reference so far replaced a sub-tree of classic length L >= 4 by at  *)
(* most L bytes"), min: every atom and path atom so far has the minimal      *)
(* prefix (so: accepted /\ min /\ pos = Len(b)  <=>  canonical);             *)
(* maintained only when `track` is TRUE.                                     *)

RECURSIVE ListOf(_, _)
ListOf(vals, k) == IF k = 0 THEN Nil ELSE Pair(vals[k].n, ListOf(vals, k - 1))

\* traverse_path_with_vec: walking in "vec mode" at entry idx; a right step pops
\* (or runs off the bottom into NIL), a left step enters the value of the entry
RECURSIVE WalkVec(_, _, _, _)
WalkVec(vals, idx, steps, i) ==
  IF i > Len(steps) THEN [ok |-> TRUE, list |-> TRUE, idx |-> idx, n |-> Nil]
  ELSE IF steps[i]
       THEN IF idx = 1
            THEN LET w == Walk(Nil, steps, i + 1) IN [ok |-> w.ok, list |-> FALSE, idx |-> 0, n |-> w.n]
            ELSE WalkVec(vals, idx - 1, steps, i + 1)
       ELSE LET w == Walk(vals[idx].n, steps, i + 1) IN [ok |-> w.ok, list |-> FALSE, idx |-> 0, n |-> w.n]

TraverseVec(p, vals) ==
  IF PathIsNil(p) THEN [ok |-> TRUE, list |-> FALSE, idx |-> 0, n |-> Nil]
  ELSE LET steps == PathSteps(p) IN
       IF vals = << >>
       THEN LET w == Walk(Nil, steps, 1) IN [ok |-> w.ok, list |-> FALSE, idx |-> 0, n |-> w.n]
       ELSE WalkVec(vals, Len(vals), steps, 1)

\* the atom parsed at index i is written with the prefix write_atom would choose
MinimalAt(b, i, a) == AtomEnc(a.blob) = SubSeq(b, i, a.next - 1)

VInit == [st |-> "run", err |-> "", pos |-> 0, ops |-> << "S" >>, vals |-> << >>,
          real |-> 0, ghost |-> 0, res |-> Nil, brs |-> 0, mat |-> 0, reuse |-> 0, rule |-> TRUE,
          min |-> TRUE]

VFail(s, why) == [s EXCEPT !.st = "err", !.err = why]
\* `while let Some(op) = ops.pop()` ends when the stack is empty: Ok(values.pop())
VFinish(s) == IF s.ops = << >> THEN [s EXCEPT !.st = "ok", !.res = s.vals[Len(s.vals)].n] ELSE s

VPairCount(s) == s.real + s.ghost

VStep(b, s, track) ==
  LET no   == Len(s.ops)
      op   == s.ops[no]
      rest == SubSeq(s.ops, 1, no - 1)
  IN
  IF op = "C"
  THEN \* pop right, pop left, new_pair, add_ghost_pair(1), push (pair, None)
       LET nv == Len(s.vals)
           pr == Pair(s.vals[nv - 1].n, s.vals[nv].n)
       IN  VFinish([s EXCEPT !.ops = rest,
                             !.vals = Append(SubSeq(s.vals, 1, nv - 2), [n |-> pr, lst |-> FALSE]),
                             !.real = @ + 1, !.ghost = @ + 1])
  ELSE IF s.pos >= Len(b) THEN VFail(s, "eof")
  ELSE LET c == b[s.pos + 1] IN
       IF c = 255 THEN [s EXCEPT !.pos = @ + 1, !.ops = rest \o << "C", "S", "S" >>]
       ELSE IF c = 254
       THEN IF s.pos + 1 >= Len(b) THEN VFail(s, "eof")            \* parse_path: read_exact
            ELSE LET a == ParseAtomAt(b, s.pos + 2) IN
                 IF a.st # "ok" THEN VFail(s, a.st)
                 ELSE LET w == TraverseVec(a.blob, s.vals) IN
                      IF ~w.ok THEN VFail(s, "bad")
                      ELSE LET \* materialise entries 1..idx that have no cached list:
                               \* remove_ghost_pair(1); new_pair; x.1 = Some(..)
                               m     == IF w.list THEN Cardinality({i \in 1..w.idx : ~s.vals[i].lst}) ELSE 0
                               node  == IF w.list THEN ListOf(s.vals, w.idx) ELSE w.n
                               vals1 == IF w.list
                                        THEN [i \in 1..Len(s.vals) |->
                                                IF i <= w.idx THEN [s.vals[i] EXCEPT !.lst = TRUE] ELSE s.vals[i]]
                                        ELSE s.vals
                               used  == a.next - 1 - s.pos
                               L     == IF track THEN ClassicLen(node) ELSE 0
                           IN  VFinish([s EXCEPT !.pos = a.next - 1, !.ops = rest,
                                                 !.vals = Append(vals1, [n |-> node, lst |-> FALSE]),
                                                 !.real = @ + m, !.ghost = @ - m + 1,
                                                 !.brs = @ + 1, !.mat = @ + m,
                                                 !.reuse = @ + (IF w.list THEN w.idx - m ELSE 0),
                                                 !.rule = @ /\ (track => (L >= 4 /\ used <= L)),
                                                 !.min = @ /\ (track => MinimalAt(b, s.pos + 2, a))])
       ELSE LET a == ParseAtomAt(b, s.pos + 1) IN
            IF a.st # "ok" THEN VFail(s, a.st)
            ELSE VFinish([s EXCEPT !.pos = a.next - 1, !.ops = rest,
                                   !.vals = Append(s.vals, [n |-> Atom(a.blob), lst |-> FALSE]),
                                   !.ghost = @ + 1,
                                   !.min = @ /\ (track => MinimalAt(b, s.pos + 1, a))])

\* structural invariant of the lazy materialisation: cached lists are downward closed,
\* and every stack entry is either a ghost pair or a materialised one
VWellFormed(s) ==
  /\ \A i \in 1..Len(s.vals) : s.vals[i].lst => \A j \in 1..i : s.vals[j].lst
  /\ s.ghost >= Cardinality({i \in 1..Len(s.vals) : ~s.vals[i].lst})

---------------------------------------------------------------------------
(* 3b. legacy list-stack decoder: de_br.rs node_from_stream_backrefs_old     *)
(* vals is a CLVM list (a tree); every push is a real pair.                  *)

LInit == [st |-> "run", err |-> "", pos |-> 0, ops |-> << "S" >>, vals |-> Nil, pairs |-> 0, res |-> Nil]

LFail(s, why) == [s EXCEPT !.st = "err", !.err = why]
LFinish(s) == IF s.ops = << >> THEN [s EXCEPT !.st = "ok", !.res = s.vals.f] ELSE s

LStep(b, s) ==
  LET no   == Len(s.ops)
      op   == s.ops[no]
      rest == SubSeq(s.ops, 1, no - 1)
  IN
  IF op = "C"
  THEN LET right == s.vals.f
           left  == s.vals.r.f
           below == s.vals.r.r
       IN  LFinish([s EXCEPT !.ops = rest, !.vals = Pair(Pair(left, right), below), !.pairs = @ + 2])
  ELSE IF s.pos >= Len(b) THEN LFail(s, "eof")
  ELSE LET c == b[s.pos + 1] IN
       IF c = 255 THEN [s EXCEPT !.pos = @ + 1, !.ops = rest \o << "C", "S", "S" >>]
       ELSE IF c = 254
       THEN IF s.pos + 1 >= Len(b) THEN LFail(s, "eof")
            ELSE LET a == ParseAtomAt(b, s.pos + 2) IN
                 IF a.st # "ok" THEN LFail(s, a.st)
                 ELSE LET w == TraversePath(a.blob, s.vals) IN
                      IF ~w.ok THEN LFail(s, "bad")
                      ELSE LFinish([s EXCEPT !.pos = a.next - 1, !.ops = rest,
                                             !.vals = Pair(w.n, s.vals), !.pairs = @ + 1])
       ELSE LET a == ParseAtomAt(b, s.pos + 1) IN
            IF a.st # "ok" THEN LFail(s, a.st)
            ELSE LFinish([s EXCEPT !.pos = a.next - 1, !.ops = rest,
                                   !.vals = Pair(Atom(a.blob), s.vals), !.pairs = @ + 1])

---------------------------------------------------------------------------
(* 3c. length probe: tools.rs serialized_length_from_bytes                   *)
(* A private allocator holds the *shadow* of the parse stack: same pairs,    *)
(* every atom replaced by nil.  Atoms are skipped (decode_size + seek), not  *)
(* read.  Result: the cursor position.                                      *)

RECURSIVE Shadow(_)
Shadow(t) == IF IsAtom(t) THEN Nil ELSE Pair(Shadow(t.f), Shadow(t.r))

\* `b[0] == 0x80 || b[0] <= 0x7f` : one byte; else decode_size, seek, bounds check
SkipAtomAt(b, i) ==
  IF b[i] = 128 \/ b[i] <= 127 THEN [st |-> "ok", next |-> i + 1]
  ELSE LET d == DecodeSize(b, i) IN
       IF d.st # "ok" THEN [st |-> d.st, next |-> i]
       ELSE IF ~NFitsInt(d.size) THEN [st |-> "eof", next |-> i]
       ELSE LET n == NToInt(d.size) IN
            IF n > Len(b) - (i + d.k) + 1 THEN [st |-> "eof", next |-> i]
            ELSE [st |-> "ok", next |-> i + d.k + n]

PInit == [st |-> "run", err |-> "", pos |-> 0, ops |-> << "S" >>, vals |-> Nil, res |-> 0]

PFail(s, why) == [s EXCEPT !.st = "err", !.err = why]
PFinish(s) ==
  IF s.ops = << >>
  THEN IF IsAtom(s.vals) THEN PFail(s, "bad") ELSE [s EXCEPT !.st = "ok", !.res = s.pos]
  ELSE s

PStep(b, s) ==
  LET no   == Len(s.ops)
      op   == s.ops[no]
      rest == SubSeq(s.ops, 1, no - 1)
  IN
  IF op = "C"
  THEN IF IsAtom(s.vals) THEN PFail(s, "bad")
       ELSE IF IsAtom(s.vals.r) THEN PFail(s, "bad")
       ELSE LET v1 == s.vals.f   v3 == s.vals.r.f   v4 == s.vals.r.r
            IN  PFinish([s EXCEPT !.ops = rest, !.vals = Pair(Pair(v3, v1), v4)])
  ELSE IF s.pos >= Len(b) THEN PFail(s, "eof")
  ELSE LET c == b[s.pos + 1] IN
       IF c = 255 THEN [s EXCEPT !.pos = @ + 1, !.ops = rest \o << "C", "S", "S" >>]
       ELSE IF c = 254
       THEN IF s.pos + 1 >= Len(b) THEN PFail(s, "eof")
            ELSE LET a == ParseAtomAt(b, s.pos + 2) IN
                 IF a.st # "ok" THEN PFail(s, a.st)
                 ELSE LET w == TraversePath(a.blob, s.vals) IN
                      IF ~w.ok THEN PFail(s, "bad")
                      ELSE PFinish([s EXCEPT !.pos = a.next - 1, !.ops = rest, !.vals = Pair(w.n, s.vals)])
       ELSE LET a == SkipAtomAt(b, s.pos + 1) IN
            IF a.st # "ok" THEN PFail(s, a.st)
            ELSE PFinish([s EXCEPT !.pos = a.next - 1, !.ops = rest, !.vals = Pair(Nil, s.vals)])

---------------------------------------------------------------------------
(* 4. (d) declarative meaning                                               *)
(* DParse(b, p, stk): the item that starts after p consumed bytes, when the  *)
(* values parsed so far are the CLVM list stk.                              *)
(*   0xff L R   = Pair(l, r)   where r is parsed with l pushed on the stack  *)
(*   0xfe path  = the node the path selects in stk                          *)
(*   atom       = itself                                                    *)
(* Result: st ("ok" | "eof" | "bad"), t, pos (bytes consumed), pc = number   *)
(* of stack cells ever created up to this point of the parse (one per        *)
(* parsed leaf item, two per completed cons: the new pair and its stack      *)
(* cell) -- the pair count both decoder designs must exhibit; want = what    *)
(* the parser was waiting for when the input ended (used only to drive the   *)
(* bounded enumeration of inputs).                                          *)

DRes(st, t, pos, pc, want) == [st |-> st, t |-> t, pos |-> pos, pc |-> pc, want |-> want]

RECURSIVE DParse(_, _, _)
DParse(b, p, stk) ==
  IF p >= Len(b) THEN DRes("eof", Nil, p, 0, "item")
  ELSE LET c == b[p + 1] IN
       IF c = 255
       THEN LET l == DParse(b, p + 1, stk) IN
            IF l.st # "ok" THEN l
            ELSE LET r == DParse(b, l.pos, Pair(l.t, stk)) IN
                 IF r.st # "ok" THEN DRes(r.st, Nil, r.pos, l.pc + r.pc, r.want)
                 ELSE DRes("ok", Pair(l.t, r.t), r.pos, l.pc + r.pc + 2, "")
       ELSE IF c = 254
       THEN IF p + 1 >= Len(b) THEN DRes("eof", Nil, p, 0, "path")
            ELSE LET a == ParseAtomAt(b, p + 2) IN
                 IF a.st # "ok" THEN DRes(a.st, Nil, p, 0, "bytes")
                 ELSE LET w == TraversePath(a.blob, stk) IN
                      IF ~w.ok THEN DRes("bad", Nil, p, 0, "")
                      ELSE DRes("ok", w.n, a.next - 1, 1, "")
       ELSE LET a == ParseAtomAt(b, p + 1) IN
            IF a.st # "ok" THEN DRes(a.st, Nil, p, 0, "bytes")
            ELSE DRes("ok", Atom(a.blob), a.next - 1, 1, "")

DecodeBR(b) == DParse(b, 0, Nil)

\* tools.rs is_canonical_serialization, as the code computes it
CanonAtomAt(b, i) ==          \* is_canonical_atom; b[i] is first_byte; next as above
  IF b[i] = 128 \/ b[i] <= 127 THEN [ok |-> TRUE, next |-> i + 1]
  ELSE LET d == DecodeSize(b, i) IN
       IF d.st # "ok" THEN [ok |-> FALSE, next |-> i]
       ELSE IF ~NFitsInt(d.size) THEN [ok |-> FALSE, next |-> i]         \* seek far past the end
       ELSE LET n   == NToInt(d.size)
                min == CASE d.k = 1 -> 1 [] d.k = 2 -> 64 [] d.k = 3 -> 8192 [] d.k = 4 -> 1048576
                         [] d.k = 5 -> 268435456 [] OTHER -> -1
                big == d.k <= 5 /\ n >= min        \* k = 6 needs >= 2^36 > Lim34: never canonical
            IN  IF n = 1
                THEN IF i + d.k > Len(b) THEN [ok |-> FALSE, next |-> i]
                     ELSE IF b[i + d.k] < 128 THEN [ok |-> FALSE, next |-> i]
                     ELSE [ok |-> big, next |-> i + d.k + 1]
                ELSE IF n > Len(b) - (i + d.k) + 1 THEN [ok |-> FALSE, next |-> i]   \* position > len
                ELSE [ok |-> big, next |-> i + d.k + n]

RECURSIVE CanonLoop(_, _, _)
CanonLoop(b, p, counter) ==
  IF counter = 0 THEN p = Len(b)
  ELSE IF p >= Len(b) THEN FALSE
  ELSE LET c == b[p + 1] IN
       IF c = 255 THEN CanonLoop(b, p + 1, counter + 1)
       ELSE IF c = 254
       THEN IF p + 1 >= Len(b) THEN FALSE
            ELSE LET q == CanonAtomAt(b, p + 2) IN q.ok /\ CanonLoop(b, q.next - 1, counter - 1)
       ELSE LET q == CanonAtomAt(b, p + 1) IN q.ok /\ CanonLoop(b, q.next - 1, counter - 1)

IsCanonicalCode(b) == CanonLoop(b, 0, 1)

\* declarative reading: the whole input is one item sequence in which every atom
\* (also every path atom) is written with the prefix write_atom would choose
RECURSIVE CanonDecl(_, _, _)
CanonDecl(b, p, counter) ==
  IF counter = 0 THEN p = Len(b)
  ELSE IF p >= Len(b) THEN FALSE
  ELSE LET c == b[p + 1] IN
       IF c = 255 THEN CanonDecl(b, p + 1, counter + 1)
       ELSE LET i == IF c = 254 THEN p + 2 ELSE p + 1 IN
            IF i > Len(b) THEN FALSE
            ELSE LET a == ParseAtomAt(b, i) IN
                 /\ a.st = "ok"
                 /\ AtomEnc(a.blob) = SubSeq(b, i, a.next - 1)
                 /\ CanonDecl(b, a.next - 1, counter - 1)
IsCanonical(b) == CanonDecl(b, 0, 1)

---------------------------------------------------------------------------
(* 5. (e) the serializer                                                    *)
(* The serializer mirrors the parse stack: after a node n has been written   *)
(* (in any way) the decoder's stack is Pair(n, stk).  At a node it may write *)
(* a back-reference `0xfe path` iff the path selects an equal sub-tree in    *)
(* the mirrored stack and the emission rule holds:                          *)
(*     L = ClassicLen(node) >= 4   and   1 + |serialized path atom| <= L     *)
(* (read_cache_lookup.rs find_paths: `serialized_length < 4`,               *)
(*  `atom_length_bits(path.len() + 1) <= serialized_length - 1`); otherwise  *)
(* it writes the atom, or 0xff and the two children.  SerRel is the set of   *)
(* all outputs this allows.  Which of them the code picks (greedy, shortest  *)
(* path, smallest of the discovered ones) is SerCode below.                  *)

MayBackref(L, nsteps) == L >= 4 /\ 1 + PathEncLen(nsteps) <= L

\* all step sequences of length <= maxd from stk to a node equal to target
RECURSIVE PathsTo(_, _, _)
PathsTo(stk, target, maxd) ==
  (IF stk = target THEN { << >> } ELSE { })
    \cup (IF IsAtom(stk) \/ maxd = 0 THEN { }
          ELSE {<< FALSE >> \o s : s \in PathsTo(stk.f, target, maxd - 1)}
               \cup {<< TRUE >> \o s : s \in PathsTo(stk.r, target, maxd - 1)})

\* a generous bound on the number of steps a back-reference to a node of length L may have
MaxSteps(L) == 8 * L

RelPaths(node, stk) ==
  LET L == ClassicLen(node) IN
  IF L < 4 THEN { }
  ELSE {s \in PathsTo(stk, node, MaxSteps(L)) : MayBackref(L, Len(s))}

RECURSIVE SerRel(_, _)
SerRel(node, stk) ==
  {<< 254 >> \o AtomEnc(PathBytes(s)) : s \in RelPaths(node, stk)}
    \cup (IF IsAtom(node) THEN {AtomEnc(node.a)}
          ELSE {<< 255 >> \o x \o y : x \in SerRel(node.f, stk), y \in SerRel(node.r, Pair(node.f, stk))})

\* --- the code's choice ------------------------------------------------------
\* read_cache_lookup.rs with tree values in place of their sha256 tree hashes
\* (assumption: the tree hash is injective).  root: the stack as a list;
\* stack: <<id, root before the push>>; count, parents: finite maps.
Get(fn, k, dflt) == IF k \in DOMAIN fn THEN fn[k] ELSE dflt
Put(fn, k, v) == [x \in (DOMAIN fn) \cup {k} |-> IF x = k THEN v ELSE fn[x]]
Bump(fn, k, d) == Put(fn, k, Get(fn, k, 0) + d)
AddParent(fn, k, e) == Put(fn, k, Append(Get(fn, k, << >>), e))

RcNew == [root |-> Nil, stack |-> << >>, count |-> [x \in {Nil} |-> 1], parents |-> << >>]

RcPush(rc, id) ==
  LET nr == Pair(id, rc.root) IN
  [root    |-> nr,
   stack   |-> Append(rc.stack, << id, rc.root >>),
   count   |-> Bump(Bump(rc.count, id, 1), nr, 1),
   parents |-> AddParent(AddParent(rc.parents, id, << nr, FALSE >>), rc.root, << nr, TRUE >>)]

RcPop(rc) ==
  LET item == rc.stack[Len(rc.stack)] IN
  [root    |-> item[2],
   stack   |-> SubSeq(rc.stack, 1, Len(rc.stack) - 1),
   count   |-> Bump(Bump(rc.count, item[1], -1), rc.root, -1),
   parents |-> rc.parents]

RcPop2AndCons(rc) ==
  LET right == rc.stack[Len(rc.stack)][1]
      rc1   == RcPop(rc)
      left  == rc1.stack[Len(rc1.stack)][1]
      rc2   == RcPop(rc1)
      nr    == Pair(left, right)
      rc3   == [rc2 EXCEPT !.count = Bump(Bump(@, left, 1), right, 1),
                           !.parents = AddParent(AddParent(@, left, << nr, FALSE >>), right, << nr, TRUE >>)]
  IN  RcPush(rc3, nr)

Reverse(s) == [i \in 1..Len(s) |-> s[Len(s) + 1 - i]]

\* find_paths: breadth first from the node towards the root through live parents.
\* acc = [seen, new, resp, stop]
RECURSIVE FPParents(_, _, _, _, _, _)
FPParents(rc, ps, j, path, maxlen, acc) ==
  IF j > Len(ps) \/ acc.stop THEN acc
  ELSE LET parent == ps[j][1]
           dir    == ps[j][2]
           live   == Get(rc.count, parent, 0) > 0 /\ parent \notin acc.seen
       IN  IF live /\ Len(path) > maxlen THEN [acc EXCEPT !.stop = TRUE]
           ELSE LET a1 == IF live /\ Len(path) < maxlen
                          THEN [acc EXCEPT !.new = Append(@, << parent, Append(path, dir) >>)]
                          ELSE acc
                IN  FPParents(rc, ps, j + 1, path, maxlen, [a1 EXCEPT !.seen = @ \cup {parent}])

RECURSIVE FPNodes(_, _, _, _, _, _)
FPNodes(rc, partial, i, maxbytes, maxlen, acc) ==
  IF i > Len(partial) \/ acc.stop THEN acc
  ELSE LET node == partial[i][1]
           path == partial[i][2]
       IN  IF node = rc.root
           THEN FPNodes(rc, partial, i + 1, maxbytes, maxlen,
                        IF PathEncLen(Len(path)) <= maxbytes
                        THEN [acc EXCEPT !.resp = Append(@, PathBytes(Reverse(path)))]
                        ELSE acc)
           ELSE FPNodes(rc, partial, i + 1, maxbytes, maxlen,
                        FPParents(rc, Get(rc.parents, node, << >>), 1, path, maxlen, acc))

RECURSIVE FPLevels(_, _, _, _, _)
FPLevels(rc, partial, seen, maxbytes, maxlen) ==
  IF partial = << >> THEN << >>
  ELSE LET acc == FPNodes(rc, partial, 1, maxbytes, maxlen,
                          [seen |-> seen, new |-> << >>, resp |-> << >>, stop |-> FALSE])
       IN  IF acc.stop \/ acc.resp # << >> THEN acc.resp
           ELSE FPLevels(rc, acc.new, acc.seen, maxbytes, maxlen)

FindPaths(rc, id, L) ==
  IF L < 4 THEN << >> ELSE FPLevels(rc, << << id, << >> >> >>, {id}, L - 1, (L - 1) * 8 - 1)

\* Vec<u8> ordering
RECURSIVE BytesLess(_, _, _)
BytesLess(x, y, i) ==
  IF i > Len(x) THEN i <= Len(y)
  ELSE IF i > Len(y) THEN FALSE
  ELSE IF x[i] # y[i] THEN x[i] < y[i]
  ELSE BytesLess(x, y, i + 1)

\* find_path: sort, take the first.  [found, path]
FindPath(rc, id, L) ==
  LET ps == FindPaths(rc, id, L) IN
  IF ps = << >> THEN [found |-> FALSE, path |-> << >>]
  ELSE [found |-> TRUE,
        path  |-> CHOOSE x \in {ps[i] : i \in 1..Len(ps)} :
                    \A y \in {ps[i] : i \in 1..Len(ps)} : x = y \/ BytesLess(x, y, 1)]

\* ser_br.rs node_to_stream_backrefs (the explicit write/read-op stacks of the code are
\* the recursion here; `pop2_and_cons` runs when both children of a pair are written)
RECURSIVE SerCodeRec(_, _)
SerCodeRec(node, rc) ==
  LET fp == FindPath(rc, node, ClassicLen(node)) IN
  IF fp.found THEN [out |-> << 254 >> \o AtomEnc(fp.path), rc |-> RcPush(rc, node)]
  ELSE IF IsAtom(node) THEN [out |-> AtomEnc(node.a), rc |-> RcPush(rc, node)]
  ELSE LET l == SerCodeRec(node.f, rc)
           r == SerCodeRec(node.r, l.rc)
       IN  [out |-> << 255 >> \o l.out \o r.out, rc |-> RcPop2AndCons(r.rc)]

SerCode(t) == SerCodeRec(t, RcNew).out
=============================================================================
