INIT Init
NEXT Next
INVARIANT InvC25
INVARIANT InvC02
INVARIANT InvC07
INVARIANT InvC08
INVARIANT InvC11
INVARIANT InvC30
INVARIANT InvC31
INVARIANT EmitCases
CHECK_DEADLOCK FALSE
