------------------------------ MODULE Varint ------------------------------
(***************************************************************************)
(* serde_2026 variable-length signed integers (src/serde_2026/varint.rs).  *)
(*                                                                         *)
(* An encoding of width k (1..8 bytes) is                                  *)
(*   [k-1 one bits][0][7k-bit two's complement value, big endian]          *)
(* Values are BigInt integers (the range is 56 bits, TLC ints are 32).     *)
(***************************************************************************)
EXTENDS BigInt

\* 2^n as a Nat
NPow2(n) == NShl(<< 1 >>, n)

\* v fits in a k-byte varint:  -2^(7k-1) <= v <= 2^(7k-1) - 1
FitsWidth(v, k) ==
  IF v[1] THEN NLe(v[2], NPow2(7 * k - 1)) ELSE NLt(v[2], NPow2(7 * k - 1))

InRange(v) == FitsWidth(v, 8)

RECURSIVE MinWidthFrom(_, _)
MinWidthFrom(v, k) == IF k = 8 \/ FitsWidth(v, k) THEN k ELSE MinWidthFrom(v, k + 1)
MinWidth(v) == MinWidthFrom(v, 1)

\* the k-byte encoding of v (requires FitsWidth(v, k))
EncodeWidth(v, k) ==
  LET u   == IF v[1] THEN NSub(NPow2(7 * k), v[2]) ELSE v[2]      \* v mod 2^(7k)
      d   == NPad(u, k)                                            \* k LE digits, top digit < 2^(8-k)
      pre == IF k = 1 THEN 0 ELSE 256 - Pow2(9 - k)                \* k-1 leading one bits
  IN  [i \in 1..k |-> IF i = 1 THEN pre + d[k] ELSE d[k + 1 - i]]

\* the canonical (shortest) encoding
Encode(v) == EncodeWidth(v, MinWidth(v))

\* number of leading one bits of a byte
RECURSIVE LeadingOnes(_)
LeadingOnes(b) == IF b < 128 THEN 0 ELSE 1 + LeadingOnes((b * 2) % 256)

\* Decode(bytes, strict) = [ok, val, used]; val is a Z; used = bytes consumed on success
Fail == [ok |-> FALSE, val |-> ZZero, used |-> 0]
Decode(bytes, strict) ==
  IF bytes = << >> THEN Fail
  ELSE LET lo == LeadingOnes(bytes[1])
           k  == lo + 1
       IN  IF lo >= 8 \/ Len(bytes) < k THEN Fail
           ELSE LET top == bytes[1] % Pow2(7 - lo)
                    u   == NNorm([i \in 1..k |-> IF i = k THEN top ELSE bytes[k + 1 - i]])
                    v   == IF NGe(u, NPow2(7 * k - 1))
                             THEN Z(TRUE, NSub(NPow2(7 * k), u)) ELSE Z(FALSE, u)
                IN  IF strict /\ MinWidth(v) # k THEN Fail
                    ELSE [ok |-> TRUE, val |-> v, used |-> k]

---------------------------------------------------------------------------
(* The property (C21) over the specification codec, for one byte string b  *)
(* and one value v.  MCVarint evaluates these over the bounded universe.   *)

ValueLaws(v) ==
  InRange(v) =>
    LET e == Encode(v)
    IN  /\ Len(e) = MinWidth(v)
        /\ \A k \in 1..(Len(e) - 1) : ~FitsWidth(v, k)                 \* shortest
        /\ Decode(e, TRUE) = [ok |-> TRUE, val |-> v, used |-> Len(e)]   \* round trip, strict accepts
        /\ Decode(e, FALSE) = Decode(e, TRUE)

BytesLaws(b) ==
  LET dl == Decode(b, FALSE)
      ds == Decode(b, TRUE)
  IN  /\ dl.ok => /\ dl.used = LeadingOnes(b[1]) + 1                    \* consumes the declared length
                  /\ InRange(dl.val)
                  /\ EncodeWidth(dl.val, dl.used) = SubSeq(b, 1, dl.used) \* denotes exactly that value
      /\ ds.ok => dl.ok /\ ds = dl                                        \* lenient extends strict
      /\ dl.ok => (ds.ok <=> SubSeq(b, 1, dl.used) = Encode(dl.val))      \* strict = shortest only
      /\ ~dl.ok => ~ds.ok
=============================================================================
