------------------------- MODULE TraceSerBackrefs -------------------------
(***************************************************************************)
(* Trace validation (implementation -> specification) for C17 / C18.        *)
(*                                                                         *)
(* Every recorded byte string (the output of node_to_bytes_backrefs in a    *)
(* `ser_br` event, the input of a `de_br` event) is re-executed by the       *)
(* machines of SerBackrefs, one TLC state per loop iteration; when they      *)
(* have stopped the recorded observables are compared.  A line that          *)
(* disagrees prints MISMATCH [line, ev, fails (labels), spec (what the       *)
(* specification computed)] and validation continues with the next line.     *)
(*                                                                         *)
(* events                                                                  *)
(*  ser_br  t, out, out2 (second run, same allocator), out3 (a run on an     *)
(*          allocator that shares equal sub-trees), classic (length of       *)
(*          node_to_bytes), canon (is_canonical_serialization), rt / rt_old  *)
(*          (both decoders return t)           | panic                       *)
(*  reser   out, de_ok, re = ser(de(out))      | panic                       *)
(*  de_br   b, cur / old = [ok, t, pc] | [panic], probe = [ok, len] |        *)
(*          [panic], canon, and when the probe succeeds: pre_ok (the decoder *)
(*          accepts b[..len] with the same tree), pre1_fail (and rejects     *)
(*          b[..len-1]): "the probe reports what the decoder consumed"       *)
(*                                                                         *)
(* labels: see engines/serdebr.py for which are property-level (C17/C18)    *)
(* and which are conformance diagnostics (drift).                           *)
(***************************************************************************)
EXTENDS SerBackrefs, TLC, Json, IOUtils

Rec == ndJsonDeserialize(IOEnv.TRACE)

VARIABLES l, k, mv, ml, mp

Has(e, f) == f \in DOMAIN e

\* trees in traces: nested, or flat [t |-> <<node,..>>] for deep ones (CONVENTIONS.md)
RECURSIVE BuildFlat(_, _)
BuildFlat(tab, i) ==
  IF "a" \in DOMAIN tab[i] THEN [a |-> tab[i].a]
  ELSE [f |-> BuildFlat(tab, tab[i].p[1]), r |-> BuildFlat(tab, tab[i].p[2])]
TreeOf(j) == IF "t" \in DOMAIN j THEN BuildFlat(j.t, Len(j.t)) ELSE j

IdleV == [VInit EXCEPT !.st = "idle"]
IdleL == [LInit EXCEPT !.st = "idle"]
IdleP == [PInit EXCEPT !.st = "idle"]

Kind(i) ==
  IF i > Len(Rec) THEN "none"
  ELSE LET e == Rec[i] IN
       IF e.ev = "de_br" THEN "de"
       ELSE IF e.ev = "ser_br" /\ Has(e, "out") THEN "ser"
       ELSE "plain"

Input(e) == IF e.ev = "de_br" THEN e.b ELSE e.out

StartV(i) == IF Kind(i) \in {"de", "ser"} THEN VInit ELSE IdleV
StartL(i) == IF Kind(i) = "de" THEN LInit ELSE IdleL
StartP(i) == IF Kind(i) = "de" THEN PInit ELSE IdleP

Running == "run" \in {mv.st, ml.st, mp.st}      \* (not a disjunction: TLC would split the action)

F(cond, label) == IF cond THEN << >> ELSE << label >>

---------------------------------------------------------------------------
SerFails(e) ==
  IF Has(e, "panic") THEN << "panic" >>
  ELSE LET t == TreeOf(e.t)
           L == ClassicLen(t)
       IN  \* specification-level: what the bytes mean
           F(mv.st = "ok" /\ mv.res = t /\ mv.pos = Len(e.out), "rt_spec")
        \o F(mv.st = "ok" => (mv.min /\ mv.pos = Len(e.out)), "canon_spec")
        \o F(Len(e.out) <= L, "grow_spec")
        \o F(mv.st = "ok" => mv.rule, "rule")
           \* implementation-level relations recorded by the harness
        \o F(e.out2 = e.out, "run2")
        \o F(e.out3 = e.out, "run3")
        \o F(e.rt, "rt_impl")
        \o F(e.rt_old, "rt_old")
        \o F(e.canon, "canon_impl")
        \o F(Len(e.out) <= e.classic, "grow_impl")
        \o F(e.classic = L, "classic")

ReserFails(e) ==
  IF Has(e, "panic") THEN << "panic" >>
  ELSE F(e.de_ok, "reser_de") \o F(e.de_ok => e.re = e.out, "reser")

DecOk(o) == ~Has(o, "panic") /\ o.ok

DeFails(e) ==
  LET cur == e.cur  old == e.old  pr == e.probe
      sok == mv.st = "ok"
  IN  F(~Has(cur, "panic") /\ ~Has(old, "panic") /\ ~Has(pr, "panic"), "panic")
      \* relations between the three implementations (the property)
   \o F(DecOk(cur) = DecOk(old), "accept")
   \o F((DecOk(cur) /\ DecOk(old)) => cur.t = old.t, "tree")
   \o F((~Has(cur, "panic") /\ ~Has(old, "panic")) => cur.pc = old.pc, "pc")
   \o F(DecOk(pr) = DecOk(cur), "probe_ok")
   \o F(DecOk(pr) => (e.pre_ok /\ e.pre1_fail), "probe_len")
      \* agreement with the specification's machines
   \o F(~Has(cur, "panic") => cur.ok = sok, "spec_ok")
   \o F(~Has(old, "panic") => old.ok = (ml.st = "ok"), "spec_ok_old")
   \o F(~Has(pr, "panic") => pr.ok = (mp.st = "ok"), "spec_ok_probe")
   \o F((DecOk(cur) /\ sok) => TreeOf(cur.t) = mv.res, "spec_tree")
   \o F((DecOk(old) /\ ml.st = "ok") => TreeOf(old.t) = ml.res, "spec_tree_old")
   \o F(~Has(cur, "panic") => cur.pc = VPairCount(mv), "spec_pc")
   \o F(~Has(old, "panic") => old.pc = ml.pairs, "spec_pc_old")
   \o F((DecOk(pr) /\ mp.st = "ok") => pr.len = mp.res, "spec_len")
   \o F(sok => (e.canon = (mv.min /\ mv.pos = Len(e.b))), "spec_canon")
      \* the three specification machines among themselves
   \o F(mv.st = ml.st /\ ml.st = mp.st /\ VPairCount(mv) = ml.pairs
        /\ (sok => (mv.res = ml.res /\ mv.pos = ml.pos /\ mp.res = mv.pos)), "spec_internal")

Fails(e) ==
  IF e.ev = "ser_br" THEN SerFails(e)
  ELSE IF e.ev = "reser" THEN ReserFails(e)
  ELSE IF e.ev = "de_br" THEN DeFails(e)
  ELSE << "unknown-event" >>

SpecView == [st |-> mv.st, err |-> mv.err, pc |-> VPairCount(mv), pos |-> mv.pos, brs |-> mv.brs,
             mat |-> mv.mat, reuse |-> mv.reuse, lst |-> ml.st, lpc |-> ml.pairs, pst |-> mp.st, plen |-> mp.res]

---------------------------------------------------------------------------
Init == l = 1 /\ k = 0 /\ mv = StartV(1) /\ ml = StartL(1) /\ mp = StartP(1)

Step ==
  /\ Running
  /\ LET b == Input(Rec[l]) IN
     /\ mv' = IF mv.st = "run" THEN VStep(b, mv, TRUE) ELSE mv
     /\ ml' = IF ml.st = "run" THEN LStep(b, ml) ELSE ml
     /\ mp' = IF mp.st = "run" THEN PStep(b, mp) ELSE mp
  /\ k' = k + 1
  /\ l' = l

Check ==
  /\ ~Running
  /\ l <= Len(Rec)
  /\ LET fs == Fails(Rec[l]) IN
     IF fs = << >> THEN TRUE
     ELSE PrintT(<< "MISMATCH", ToJson([line |-> l, ev |-> Rec[l].ev, fails |-> fs, spec |-> SpecView]) >>)
  /\ l' = l + 1
  /\ k' = k
  /\ mv' = StartV(l + 1) /\ ml' = StartL(l + 1) /\ mp' = StartP(l + 1)

Next == Step \/ Check

Done == l = Len(Rec) + 1 => PrintT(<< "TRACE-DONE", ToJson([lines |-> l - 1, steps |-> k]) >>)
=============================================================================
