CONSTANT Kind = "fresh"
CONSTANT KeepAlive = FALSE
CONSTANT NAddr = 6
CONSTANT MaxLeaves = 4
CONSTANT Trees <- AllTrees
INIT Init
NEXT Next
INVARIANT Correct
INVARIANT NoPanic
INVARIANT EnoughAddresses
CHECK_DEADLOCK FALSE
