------------------------- MODULE TraceIncremental -------------------------
(* Trace validation (implementation -> specification) for C19.  The trace   *)
(* is a sequence of histories recorded from the real Serializer:            *)
(*   inc_new   h, sent (the sentinel VALUE: it occurs nowhere else, every   *)
(*             position holding it is the one sentinel node), mode, reuse   *)
(*   inc_add   t (tree, sentinel value in place), done/done2 | err | panic, *)
(*             bytes (get_ref() after the call), size, size2                *)
(*   inc_undo  k (restore the UndoState of the k-th most recent retained    *)
(*             add), bytes, size, size2                                     *)
(*   inc_final complete, aborted, bytes (into_inner / get_ref), bytes2 (the *)
(*             same history on a second Serializer), dec_ok, dec_classic    *)
(*             (node_from_bytes_backrefs' result, classically serialized by *)
(*             the harness's own encoder) | dec_err                         *)
(* Observed bytes are delta-encoded losslessly by the harness: `app` = the  *)
(* bytes appended to the previously visible ones, `keep` = length of the    *)
(* prefix of the previously visible bytes that is visible now, `same` /     *)
(* `same2` = equal to the visible bytes / to the first serializer's bytes;  *)
(* whenever that relation does not hold the full `bytes` / `bytes2` appear. *)
(* One TLC state per line.  The abstract machine of Incremental.tla is      *)
(* re-executed on the recorded calls; the recorded bytes are related to it  *)
(* by the three clauses of C19.  A history with a failed clause prints ONE  *)
(* MISMATCH record at its inc_final line, with the history class computed   *)
(* here (F6a / F6b / F6c / none).  Validation never stops.                  *)
EXTENDS Incremental, TLC, Json, IOUtils

Rec == ndJsonDeserialize(IOEnv.TRACE)

VARIABLES l,      \* next line
          st,     \* abstract machine state of the current history
          cur,    \* bytes currently visible (observed)
          bad,    \* clauses of C19 that failed in the current history, in order
          drift,  \* diagnostics (not named by the property) of the current history
          meta,   \* [h, mode, reuse, clean]
          tally   \* histories / failing histories per class

Has(e, f) == f \in DOMAIN e
NoMeta == [h |-> 0, mode |-> "", reuse |-> FALSE, clean |-> FALSE]
Tally0 == [hist |-> 0, complete |-> 0, undos |-> 0,
           nF6a |-> 0, nF6b |-> 0, nF6c |-> 0, nnone |-> 0,
           fF6a |-> 0, fF6b |-> 0, fF6c |-> 0, fnone |-> 0]

IsPrefix(p, b) == Len(p) <= Len(b) /\ SubSeq(b, 1, Len(p)) = p

Init == /\ l = 1 /\ st = InitState(Nil) /\ cur = << >> /\ bad = << >> /\ drift = << >>
        /\ meta = NoMeta /\ tally = Tally0

New(e) ==
  /\ st' = InitState(TreeOf(e.sent))
  /\ cur' = << >> /\ bad' = << >> /\ drift' = << >>
  /\ meta' = [h |-> e.h, mode |-> e.mode, reuse |-> e.reuse, clean |-> e.expect_clean]
  /\ UNCHANGED tally

\* NOTE (measured): inside an action TLC re-evaluates a LET definition at every use, so every value that
\* is expensive and used more than once is bound with  \E x \in {value}  (evaluated once).

Add(e) ==
  \E now \in {IF Has(e, "app") THEN cur \o e.app ELSE IF Has(e, "bytes") THEN e.bytes ELSE cur} :
  \E s2 \in {AddS(st, TreeOf(e.t), cur)} :
     /\ st' = s2
     /\ UNCHANGED << meta, tally >>
     /\ IF ~Has(e, "done")
        THEN /\ bad' = Append(bad, "add-fails") /\ cur' = cur /\ drift' = drift
        ELSE /\ cur' = now
             /\ bad' = bad \o (IF e.done = s2.done THEN << >> ELSE << "done" >>)
                           \o (IF e.size = Len(now) THEN << >> ELSE << "size" >>)
                           \o (IF e.done2 = e.done /\ e.size2 = e.size THEN << >> ELSE << "salt" >>)
             /\ drift' = drift \o (IF IsPrefix(cur, now) THEN << >> ELSE << "add-rewrote-earlier-bytes" >>)
                               \o (IF CanAdd(st) THEN << >> ELSE << "add-after-done" >>)

Undo(e) ==
  /\ UNCHANGED meta
  /\ tally' = [tally EXCEPT !.undos = @ + 1]
  /\ IF ~CanUndo(st, e.k)
     THEN /\ st' = st /\ cur' = cur /\ bad' = bad /\ drift' = Append(drift, "undo-not-applicable")
     ELSE /\ st' = UndoS(st, e.k)
          /\ drift' = drift
          /\ IF ~Has(e, "bytes") /\ ~Has(e, "keep")
             THEN bad' = Append(bad, "undo-fails") /\ cur' = cur
             ELSE \E now \in {IF Has(e, "keep") THEN SubSeq(cur, 1, e.keep) ELSE e.bytes} :
                  /\ cur' = now
                  /\ bad' = bad \o (IF UndoRestores(st, e.k, now) THEN << >> ELSE << "undo" >>)
                                \o (IF e.size = Len(now) THEN << >> ELSE << "size" >>)
                                \o (IF e.size2 = e.size THEN << >> ELSE << "salt" >>)

FinalClauses(e, hasb, b1, b2, d) ==
  IF e.aborted THEN << >>
  ELSE IF ~hasb THEN << "final-fails" >>
  ELSE (IF SaltIndependent(b1, b2) THEN << >> ELSE << "salt" >>)
    \o (IF e.complete = st.done THEN << >> ELSE << "done" >>)
    \o (IF ~(e.complete /\ st.done) THEN << >>
        ELSE IF ~(d.ok /\ TEq(d.tree, st.part)) THEN << "final" >>          \* FinalDecodes(st, b1)
        ELSE IF e.dec_ok /\ e.dec_classic = Encode(st.part) THEN << >>
        ELSE << "final-impl-decoder" >>)

Final(e) ==
  \E hasb \in {Has(e, "bytes") \/ Has(e, "same")} :
  \E b1 \in {IF Has(e, "same") THEN cur ELSE IF Has(e, "bytes") THEN e.bytes ELSE << >>} :
  \E b2 \in {IF Has(e, "same2") THEN b1 ELSE IF Has(e, "bytes2") THEN e.bytes2 ELSE << >>} :
  \E d \in {IF hasb /\ ~e.aborted /\ e.complete THEN DecodeBR(b1) ELSE [ok |-> FALSE, tree |-> Nil, used |-> 0]} :
  \E allbad \in {bad \o FinalClauses(e, hasb, b1, b2, d)} :
  \E dr \in {drift \o (IF ~e.aborted /\ hasb /\ b1 # cur THEN << "final-bytes-differ-from-get_ref" >> ELSE << >>)
                    \o (IF ~e.aborted /\ hasb /\ e.complete /\ d.ok /\ d.used # Len(b1)   \* ~FinalExact(b1)
                        THEN << "bytes-follow-the-encoded-tree" >> ELSE << >>)} :
  \E cls \in {Class(st, meta.reuse)} :
     /\ IF allbad = << >> THEN TRUE
        ELSE PrintT(<< "MISMATCH", ToJson([h |-> meta.h, line |-> l, clause |-> allbad[1], clauses |-> allbad,
                                           class |-> cls, mode |-> meta.mode, reuse |-> meta.reuse]) >>)
     /\ IF dr = << >> THEN TRUE
        ELSE PrintT(<< "DRIFT", ToJson([h |-> meta.h, line |-> l, what |-> dr]) >>)
     /\ IF meta.clean /\ cls # "none" /\ ~(meta.reuse /\ cls = "F6c")
        THEN PrintT(<< "GENERATOR", ToJson([h |-> meta.h, line |-> l, class |-> cls]) >>) ELSE TRUE
     /\ tally' = [tally EXCEPT !.hist = @ + 1,
                               !.complete = @ + (IF st.done THEN 1 ELSE 0),
                               !.nF6a = @ + (IF cls = "F6a" THEN 1 ELSE 0),
                               !.nF6b = @ + (IF cls = "F6b" THEN 1 ELSE 0),
                               !.nF6c = @ + (IF cls = "F6c" THEN 1 ELSE 0),
                               !.nnone = @ + (IF cls = "none" THEN 1 ELSE 0),
                               !.fF6a = @ + (IF cls = "F6a" /\ allbad # << >> THEN 1 ELSE 0),
                               !.fF6b = @ + (IF cls = "F6b" /\ allbad # << >> THEN 1 ELSE 0),
                               !.fF6c = @ + (IF cls = "F6c" /\ allbad # << >> THEN 1 ELSE 0),
                               !.fnone = @ + (IF cls = "none" /\ allbad # << >> THEN 1 ELSE 0)]
     /\ UNCHANGED << st, cur, meta >>
     /\ bad' = << >> /\ drift' = << >>

Next ==
  /\ l <= Len(Rec)
  /\ l' = l + 1
  /\ LET e == Rec[l] IN
       CASE e.ev = "inc_new"   -> New(e)
         [] e.ev = "inc_add"   -> Add(e)
         [] e.ev = "inc_undo"  -> Undo(e)
         [] e.ev = "inc_final" -> Final(e)
         [] OTHER -> UNCHANGED << st, cur, bad, drift, meta, tally >>

Done == l = Len(Rec) + 1 => PrintT(<< "TRACE-DONE", ToJson([lines |-> l - 1, tally |-> tally]) >>)
=============================================================================
