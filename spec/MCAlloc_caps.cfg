CONSTANTS
  Profile = "caps"
  MaxAtoms = 5
  MaxPairs = 1
  HeapLimit = 4
  SubstrOfInlineAtomCopies = FALSE
  MinSavings = 1024
  CloneAtomLimit = 48
INIT MCInit
NEXT MCNext
INVARIANTS InvRefines InvCaps InvStepLaw InvReads EmitCase
PROPERTIES MFailedUnchanged MImmutable
CHECK_DEADLOCK FALSE
