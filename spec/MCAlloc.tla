------------------------------ MODULE MCAlloc ------------------------------
(***************************************************************************)
(* Bounded model checking of the allocator design (C12, C13, C14).         *)
(*                                                                         *)
(* The mechanism (AllocMech) and the property model (Alloc) are stepped    *)
(* together by every call of a bounded universe (AllocMech!Both); `hist`   *)
(* records the calls with the status and the three counters the PROPERTY   *)
(* model assigns.  TLC checks on every reachable state                     *)
(*   InvRefines   the refinement relation Corr + same status (C12, C14)    *)
(*   MCapsOk      the caps are never exceeded (C13)                        *)
(*   StepLaw      the declarative accounting law on the observed counters: *)
(*                a call fails with the cap error iff completing it would  *)
(*                exceed the cap, a failed call changes nothing, a         *)
(*                completed call adds exactly its atoms/pairs/bytes        *)
(*                (substrings add no bytes), a transparent restore leaves  *)
(*                the counts unchanged, a full restore resets them         *)
(*   ReadsOk      atom_eq <=> byte equality, small_number <=> minimal      *)
(*                encoding of a value < 2^26, number() = value (C14)       *)
(* and on every transition  MFailedUnchanged (C13), MImmutable (C14).      *)
(* Every complete behaviour is printed as one CASE line (the calls, the    *)
(* expected status / counters after every call, the expected final         *)
(* contents of all nodes) for replay into the real Allocator.              *)
(*                                                                         *)
(* The universes ("profiles", CONSTANT Profile; IOEnv.TIER = quick or      *)
(* thorough selects the size).  Because `hist` is part of the state, the   *)
(* state graph is the tree of all call sequences up to the depth bound:    *)
(*   core   general histories: boundary byte strings, pairs, substrings    *)
(*          (all edge ranges incl. out-of-bounds), concat of 0/1/2 nodes,  *)
(*          full and transparent checkpoints / restores, maybe_restore     *)
(*          with the thresholds as nondeterministic parameters (0/48, 0/1  *)
(*          so that small histories reach all three outcomes), ghosts      *)
(*   ckpt   deeper checkpoint histories over two atoms (6180 inline, a     *)
(*          5-byte heap atom): nesting of full / transparent checkpoints,  *)
(*          restores that pass later checkpoints, maybe_restore reuse      *)
(*   caps   MaxAtoms / MaxPairs / HeapLimit of a few units: every call     *)
(*          kind at distance 0..2 of each cap                              *)
(*   ints   new_number / new_malachite_number / new_u64 / new_i64 /        *)
(*          new_small_number at +-2^k+-1 for every 8-bit boundary and 2^26,*)
(*          followed by a second atom (equal value in another encoding)    *)
(*   bytes  new_atom of every byte string of length <= 2 (quick: all of    *)
(*          length <= 1 and boundary pairs) and boundary strings of 3..5   *)
(*          bytes, then the same bytes again as a heap atom (concat of nil *)
(*          and the node), so that both representations are read           *)
(*   gc     maybe_restore with the real thresholds 1024 / 48 (replayable): *)
(*          the big atoms are REAL byte strings here (48, 49 and 1100      *)
(*          bytes of 0xaa) - TLC copes because the universe is tiny.  The  *)
(*          first two calls are forced (an old 1100-byte heap atom, then   *)
(*          the transparent checkpoint); then every choice of kept value   *)
(*          (old atom, nil, substring of old bytes incl. empty ones, new   *)
(*          small / 48 / 49 / 1100-byte atom, substring of new bytes, pair)*)
(*          x garbage x maybe_restore / transparent restore                *)
(*   sim    (TLC -simulate) long random histories over the union, with     *)
(*          small caps (12 atoms, 6 pairs, 40 bytes)                       *)
(* In the thorough tier all behaviours are still model-checked but only a  *)
(* deterministic sample of the big profiles is printed (EmitMod).          *)
(***************************************************************************)
EXTENDS AllocMech, TLC, Json, IOUtils

CONSTANT Profile

VARIABLE hist

vars == << mvars, avars, hist >>

Tier     == IF "TIER" \in DOMAIN IOEnv THEN IOEnv.TIER ELSE "quick"
Thorough == Tier = "thorough"
SimDepth == IF "SIMDEPTH" \in DOMAIN IOEnv THEN atoi(IOEnv.SIMDEPTH) ELSE 30

---------------------------------------------------------------------------
(* byte strings and integers of the universes *)

Fill(x, n) == [i \in 1..n |-> x]
E     == << >>
A6180 == << 97, 128 >>                \* inline; substr(1,2) = 80 is not canonical-small  (F5)
A5    == << 1, 2, 3, 4, 5 >>          \* 5 bytes: always a heap atom
CoreAtomsQ == { E, << 128 >>, << 0, 128 >>, A6180, << 4, 0, 0, 0 >>, A5 }
CoreAtomsT == CoreAtomsQ \cup { << 0 >>, << 1 >>, << 127 >>, << 0, 1 >>, << 255 >>, << 3, 255, 255, 255 >> }

Bnd8 == {0, 1, 2, 127, 128, 129, 255}
Short1 == {<< >>} \cup {<< x >> : x \in 0..255}
Short2Q(dummy) == {<< x, y >> : x \in 0..255, y \in {0, 1, 127, 128, 255}} \cup {<< x, y >> : x \in {0, 1, 3, 4, 127, 128, 255}, y \in 0..255}
Short2T(dummy) == {<< x, y >> : x \in 0..255, y \in 0..255}
Long35(dummy) == UNION { [1..n -> {0, 3, 4, 127, 128, 255}] : n \in 3..4 }
            \cup { << x >> \o t : x \in {0, 127, 128, 255}, t \in [1..4 -> {0, 128, 255}] }
ByteUniverse(dummy) == Short1 \cup (IF Thorough THEN Short2T(0) ELSE Short2Q(0)) \cup Long35(0)

\* +-2^k + d  for the bit positions where an encoding gains a byte, and 2^26
BitPos == {7, 8, 15, 16, 23, 24, 25, 26, 31, 32, 39, 40, 47, 48, 55, 56, 63, 64, 71, 72}
IntBnd(dummy) == { ZAdd(Z(s, P2(k)), ZI(d)) : s \in BOOLEAN, k \in BitPos, d \in {-1, 0, 1} }
             \cup { ZI(i) : i \in -3..3 }
IntSecond == { ZZero, ZI(1), ZI(128), ZI(-128), ZI(-129), Z(FALSE, Two26), ZAdd(Z(FALSE, Two26), ZI(-1)) }
AtomSecond == { E, << 0 >>, << 1 >>, << 0, 1 >>, << 0, 128 >>, << 128 >>, << 255, 128 >>, << 255, 127 >>,
                << 3, 255, 255, 255 >>, << 4, 0, 0, 0 >>, << 0, 4, 0, 0, 0 >> }

B48   == Fill(170, 48)
B49   == Fill(170, 49)
\* the 1100-byte atom starts with slices that are "heap-backed small integers" when cut out by new_substr:
\* (0,1) = 05, (1,2) = 7f, (2,4) = 0080, (4,8) = 03ffffff are canonical small; (8,12) = 04000000, (2,3) = 00,
\* (12,14) = 0001 are their non-small neighbours
B1100 == << 5, 127, 0, 128, 3, 255, 255, 255, 4, 0, 0, 0, 0, 1 >> \o Fill(170, 1086)

---------------------------------------------------------------------------
(* the universe of calls offered in a state, per profile and step number *)

NoSet == {}
U0 == [ atoms |-> NoSet, smalls |-> NoSet, nums |-> NoSet, mnums |-> NoSet, u64s |-> NoSet, i64s |-> NoSet,
        pairWin |-> 0, subWin |-> 0, subMode |-> "edge", subPair |-> FALSE,
        catWin |-> 0, catMax |-> 0, catBad |-> FALSE,
        maxCps |-> 0, cpKinds |-> NoSet, thr |-> NoSet, mrWin |-> 0,
        gAdd |-> NoSet, gRem |-> NoSet,
        subAlso |-> NoSet, mrAlso |-> NoSet ]        \* node ids always offered as substr source / maybe_restore node

Depth ==
  CASE Profile = "core"  -> IF Thorough THEN 4 ELSE 3
    [] Profile = "ckpt"  -> IF Thorough THEN 5 ELSE 4
    [] Profile = "caps"  -> IF Thorough THEN 4 ELSE 3
    [] Profile = "ints"  -> 2
    [] Profile = "bytes" -> 2
    [] Profile = "gc"    -> IF Thorough THEN 6 ELSE 5
    [] Profile = "sim"   -> SimDepth

U(d) ==      \* d = number of calls already made
  CASE Profile = "core" ->
         [U0 EXCEPT !.atoms = IF Thorough /\ d = 0 THEN CoreAtomsT ELSE CoreAtomsQ,
                    !.pairWin = 2, !.subWin = IF d = Depth - 1 THEN 2 ELSE 1, !.subPair = TRUE, !.catWin = 2, !.catMax = 2,
                    !.catBad = (d = Depth - 1),
                    !.maxCps = 2, !.cpKinds = {"checkpoint", "tcheckpoint"},
                    !.thr = {<< 0, 48 >>, << 0, 1 >>}, !.mrWin = 2,
                    !.gAdd = {1}, !.gRem = {1}]
    [] Profile = "ckpt" ->
         [U0 EXCEPT !.atoms = {A6180, A5}, !.pairWin = 1, !.subWin = 1, !.subMode = "few",
                    !.catWin = 1, !.catMax = 1,
                    !.maxCps = 2, !.cpKinds = {"checkpoint", "tcheckpoint"},
                    !.thr = {<< 0, 48 >>, << 0, 1 >>}, !.mrWin = 2]
    [] Profile = "caps" ->
         [U0 EXCEPT !.atoms = {E, << 128 >>, A6180, << 129, 130, 131 >>}, !.smalls = {200},
                    !.nums = {ZI(-1)},
                    !.pairWin = 1, !.subWin = 2, !.subMode = "few", !.catWin = 1, !.catMax = 2, !.catBad = TRUE,
                    !.maxCps = 1, !.cpKinds = {"checkpoint", "tcheckpoint"},
                    !.thr = {<< 0, 48 >>}, !.mrWin = 1,
                    !.gAdd = {1, 3}, !.gRem = {1}]
    [] Profile = "ints" ->
         IF d = 0
         THEN [U0 EXCEPT !.nums = IntBnd(0), !.mnums = IntBnd(0), !.u64s = IntBnd(0), !.i64s = IntBnd(0),
                         !.smalls = {0, 1, 127, 128, 32767, 32768, 8388607, 8388608, 67108863}]
         ELSE [U0 EXCEPT !.nums = IntSecond, !.i64s = {ZI(-128), ZI(128)}, !.atoms = AtomSecond]
    [] Profile = "bytes" -> [U0 EXCEPT !.atoms = ByteUniverse(0)]        \* step 2 is forced, see MCNext
    [] Profile = "gc" ->      \* steps 1, 2 are forced (an old 1100-byte heap atom = node 3, then the transparent checkpoint)
         [U0 EXCEPT !.atoms = {B48, B49, B1100, << 5 >>}, !.pairWin = 1, !.subWin = 1, !.subMode = "gc", !.subAlso = {3},
                    !.maxCps = 1, !.cpKinds = {"tcheckpoint"}, !.thr = {<< MinSavings, CloneAtomLimit >>},
                    !.mrWin = 3, !.mrAlso = {1, 3}]
    [] Profile = "sim" ->
         [U0 EXCEPT !.atoms = CoreAtomsT, !.smalls = {0, 127, 128, 67108863}, !.nums = IntSecond, !.mnums = {ZI(-129)},
                    !.u64s = {ZI(255)}, !.i64s = {ZI(-128)},
                    !.pairWin = 3, !.subWin = 3, !.subPair = TRUE, !.catWin = 3, !.catMax = 3, !.catBad = TRUE,
                    !.maxCps = 4, !.cpKinds = {"checkpoint", "tcheckpoint"},
                    !.thr = {<< 0, 48 >>, << 0, 1 >>, << 16, 2 >>, << MinSavings, CloneAtomLimit >>}, !.mrWin = 4,
                    !.gAdd = {0, 1, 2}, !.gRem = {0, 1}]

LiveH     == {k \in 1..Len(hnd) : hlive[k]}
LiveAtomH == {k \in LiveH : hnd[k].t # "pair"}
LivePairH == {k \in LiveH : hnd[k].t = "pair"}

RECURSIVE TopK(_, _)
TopK(set, k) ==
  IF k = 0 \/ set = {} THEN {}
  ELSE LET m == CHOOSE x \in set : \A y \in set : y <= x IN {m} \cup TopK(set \ {m}, k - 1)

LenOf(k) == Len(nodes[k].b)

Ranges(L, mode) ==
  LET cand == CASE mode = "edge" -> { << 0, L >>, << 0, 0 >>, << 1, L >>, << 0, L - 1 >>, << 1, 2 >>, << L, L >>,
                                       << L + 1, L + 1 >>, << 0, L + 1 >>, << 2, 1 >> }
                [] mode = "few"  -> { << 0, L >>, << 1, L >>, << 0, L - 1 >>, << 0, L + 1 >> }
                [] mode = "gc"   -> { << 0, 48 >>, << 1, 50 >>, << L - 1, L >>, << 0, 0 >>, << L, L >> }
                                      \cup (IF L >= 1100 THEN { << 0, 1 >>, << 2, 4 >>, << 4, 8 >>, << 8, 12 >>, << 12, 14 >> }
                                            ELSE {})
  IN  { rg \in cand : rg[1] >= 0 /\ rg[2] >= 0 }

\* node lists for new_concat: the empty list, every single atom, every ordered pair (triple) of the window
CatLists(W, WA, mx) ==
  {<< >>} \cup (IF mx >= 1 THEN {<< a >> : a \in WA} ELSE {})
          \cup (IF mx >= 2 THEN {<< a, b >> : a \in W, b \in W} ELSE {})
          \cup (IF mx >= 3 THEN {<< a, b, c >> : a \in WA, b \in WA, c \in WA} ELSE {})

CatSum(ids) == SumLen(S, [i \in 1..Len(ids) |-> IF nodes[ids[i]].k = "atom" THEN ids[i] ELSE 1], 1)

---------------------------------------------------------------------------
(* one call: mechanism and property model together, history extended *)

Step(op) ==
  LET mr  == MApply(MS, op)
      aop == IF op.op = "maybe_restore" THEN [op EXCEPT !.out = mr.out] ELSE op
      ar  == Apply(Lim, S, aop)
  IN  /\ Legal(S, aop) /\ MLegal(MS, op)
      /\ MSet(mr)
      /\ SetS(ar)
      /\ hist' = Append(hist, [op |-> aop, st |-> ar.st, ret |-> ar.ret,
                               atoms |-> ar.s.atoms, pairs |-> ar.s.pairs, heap |-> ar.s.heap,
                               \* the bytes the created atom must read back as (<< -1 >>: not compared)
                               rb |-> IF ar.ret > 0 /\ ar.s.nodes[ar.ret].k = "atom" /\ Len(ar.s.nodes[ar.ret].b) <= 64
                                      THEN ar.s.nodes[ar.ret].b ELSE << -1 >>])

IntOp(name, z) == [op |-> name, neg |-> z[1], mag |-> z[2]]

General(u) ==
  \/ \E b \in u.atoms  : Step([op |-> "new_atom", b |-> b])
  \/ \E v \in u.smalls : Step([op |-> "new_small_number", v |-> v])
  \/ \E z \in u.nums   : Step(IntOp("new_number", z))
  \/ \E z \in u.mnums  : Step(IntOp("new_malachite_number", z))
  \/ \E z \in u.u64s   : Step(IntOp("new_u64", z))
  \/ \E z \in u.i64s   : Step(IntOp("new_i64", z))
  \/ \E f \in TopK(LiveH, u.pairWin), r \in TopK(LiveH, u.pairWin) : Step([op |-> "new_pair", f |-> f, r |-> r])
  \/ \E n \in TopK(LiveAtomH, u.subWin) \cup (u.subAlso \cap LiveAtomH) : \E rg \in Ranges(LenOf(n), u.subMode) :
        Step([op |-> "new_substr", n |-> n, s |-> rg[1], e |-> rg[2]])
  \/ /\ u.subPair
     /\ \E n \in TopK(LivePairH, 1) : Step([op |-> "new_substr", n |-> n, s |-> 0, e |-> 0])
  \/ /\ u.catWin > 0
     /\ \E ids \in CatLists(TopK(LiveH, u.catWin), TopK(LiveAtomH, u.catWin), u.catMax) :
          \E extra \in (IF u.catBad THEN {0, 1} ELSE {0}) :
             Step([op |-> "new_concat", size |-> CatSum(ids) + extra, ns |-> ids])
  \/ /\ Len(cps) < u.maxCps
     /\ \E kind \in u.cpKinds : Step([op |-> kind])
  \/ /\ u.maxCps > 0
     /\ \E i \in 1..Len(cps) : Step([op |-> "restore", cp |-> i]) \/ Step([op |-> "trestore", cp |-> i])
  \/ \E i \in 1..Len(cps), n \in TopK(LiveH, u.mrWin) \cup (u.mrAlso \cap LiveH), t \in u.thr :
        Step([op |-> "maybe_restore", cp |-> i, n |-> n, out |-> "", ms |-> t[1], cl |-> t[2]])
  \/ \E k \in u.gAdd : Step([op |-> "add_ghost_atom", amt |-> k]) \/ Step([op |-> "add_ghost_pair", amt |-> k])
  \/ \E k \in u.gRem : Step([op |-> "remove_ghost_pair", amt |-> k])

MCInit == MInit /\ Init /\ hist = << >>

MCNext ==
  /\ Len(hist) < Depth
  /\ IF Profile = "gc" /\ Len(hist) = 0 THEN Step([op |-> "new_atom", b |-> B1100])
     ELSE IF Profile = "gc" /\ Len(hist) = 1 THEN Step([op |-> "tcheckpoint"])
     ELSE IF Profile = "bytes" /\ Len(hist) = 1
     THEN \* the same bytes once more, as a heap atom: concat(nil, node 3)
          Step([op |-> "new_concat", size |-> LenOf(3), ns |-> << 1, 3 >>])
     ELSE General(U(Len(hist)))

---------------------------------------------------------------------------
(* invariants *)

Snapshot == [hist |-> hist,
             mech  |-> [st |-> mres.st, out |-> mres.out, atoms |-> MAtoms(MS), pairs |-> MPairs(MS), heap |-> MHeap(MS)],
             model |-> [st |-> res.st, out |-> res.out, atoms |-> atoms, pairs |-> pairs, heap |-> heap]]

Report(tag, ok) == IF ok THEN TRUE ELSE PrintT(<< "CEX", ToJson([inv |-> tag] @@ Snapshot) >>) /\ FALSE

InvRefines == Report("Refines", Refines)
InvCaps    == Report("CapsOk", MCapsOk)
InvReads   == Report("ReadsOk", ReadsOk)

PreCounters ==
  IF Len(hist) = 1 THEN [atoms |-> 2, pairs |-> 0, heap |-> 1]
  ELSE LET p == hist[Len(hist) - 1] IN [atoms |-> p.atoms, pairs |-> p.pairs, heap |-> p.heap]

StepLaw ==
  hist # << >> =>
    LET e   == hist[Len(hist)]
        op  == e.op
        pre == PreCounters
        ce  == CapError(Lim, pre, op)
        d   == Delta(pre, op)
        was == << pre.atoms, pre.pairs, pre.heap >>
        now == << MAtoms(MS), MPairs(MS), MHeap(MS) >>
    IN  /\ ce # "" => mres.st = ce
        /\ ce = "" => mres.st \notin CapErrors
        /\ mres.st # "ok" => now = was
        /\ (mres.st = "ok" /\ op.op \notin {"restore", "trestore", "maybe_restore"})
              => now = << was[1] + d[1], was[2] + d[2], was[3] + d[3] >>
        /\ (mres.st = "ok" /\ op.op \in {"trestore", "maybe_restore"}) => now = was
        /\ (mres.st = "ok" /\ op.op = "restore")
              => now = << cps[op.cp].atoms, cps[op.cp].pairs, cps[op.cp].heap >>
        \* C14: integers are stored in the minimal encoding and read back as the same value
        /\ (mres.st = "ok" /\ op.op \in IntOps)
              => /\ Canonical(MAtomBytes(MS, mres.ret))
                 /\ MNumber(MS, mres.ret) = Z(op.neg, op.mag)
        /\ (mres.st = "ok" /\ op.op = "new_small_number")
              => /\ Canonical(MAtomBytes(MS, mres.ret))
                 /\ MSmallNumber(MS, mres.ret) = op.v

InvStepLaw == Report("StepLaw", StepLaw)

\* the expected final contents of all nodes (property model)
Final ==
  [k \in 1..Len(nodes) |->
     IF nodes[k].k = "atom"
     THEN (IF Profile \in {"ints", "bytes"}        \* number() read-back is replayed where integers are the subject
           THEN LET z == ZFromAtom(nodes[k].b)
                IN  [k |-> "atom", b |-> nodes[k].b, sn |-> SmallView(nodes[k].b), neg |-> z[1], mag |-> z[2]]
           ELSE [k |-> "atom", b |-> nodes[k].b, sn |-> SmallView(nodes[k].b)])
     ELSE IF nodes[k].k = "pair" THEN [k |-> "pair", x |-> nodes[k].f, y |-> nodes[k].r]
     ELSE [k |-> "dead"]]

\* a behaviour can be replayed literally only if its maybe_restore calls used the real thresholds
Replayable ==
  \A i \in 1..Len(hist) : hist[i].op.op = "maybe_restore" => hist[i].op.ms = 1024 /\ hist[i].op.cl = 48

\* All behaviours are model-checked; in the thorough tier only a deterministic sample of the (several
\* hundred thousand) complete behaviours of the big profiles is printed for replay.
EmitMod == IF ~Thorough THEN 1
           ELSE CASE Profile \in {"core", "gc"} -> 16 [] Profile = "caps" -> 8 [] Profile = "ckpt" -> 4 [] OTHER -> 1
RECURSIVE HistSum(_)
HistSum(i) == IF i = 0 THEN 0
              ELSE (i * (hist[i].atoms + 3 * hist[i].heap + 7 * hist[i].pairs + 11 * hist[i].ret) + HistSum(i - 1)) % 1009
EmitCase ==
  (Len(hist) = Depth /\ (EmitMod = 1 \/ HistSum(Len(hist)) % EmitMod = 0)) =>
    PrintT(<< "CASE", ToJson([profile |-> Profile,
                              lim |-> [atoms |-> MaxAtoms, pairs |-> MaxPairs, heap |-> HeapLimit],
                              replayable |-> Replayable, ops |-> hist, final |-> Final]) >>)
=============================================================================
