----------------------------- MODULE SerClassic -----------------------------
(***************************************************************************)
(* Classic CLVM serialization (properties C15, C16, C29).                  *)
(*                                                                         *)
(*   src/serde/write_atom.rs   atom length prefix                          *)
(*   src/serde/ser.rs          node_to_stream, LimitedWriter                *)
(*   src/serde/parse_atom.rs   decode_size_with_offset, parse_atom          *)
(*   src/serde/de.rs           node_from_stream (op stack / value stack)    *)
(*   src/serde/de_tree.rs      parse_triples                                *)
(*   src/serde/tools.rs        tree_hash_from_stream,                       *)
(*                             serialized_length_from_bytes(_trusted),      *)
(*                             is_canonical_atom/_serialization             *)
(*   src/serde/serialized_length.rs, object_cache.rs  length of a tree      *)
(*                                                                         *)
(* Trees: atom [a |-> bytes], pair [f |-> x, r |-> y] (CONVENTIONS.md).    *)
(* Byte strings: sequences of 0..255.  A cursor position p is the number   *)
(* of bytes already consumed, so the next byte is b[p + 1].                *)
(* Atom sizes can reach 2^34 (TLC ints are 32 bit): sizes that come out of *)
(* a length prefix are BigInt naturals until they have been compared with  *)
(* the number of bytes that are really there.                              *)
(*                                                                         *)
(* Part 1  the definition: Encode, lengths, EncodeLimited                  *)
(* Part 2  the encoder machine (node_to_stream over a LimitedWriter)       *)
(* Part 3  decode_size_with_offset and parse_atom                          *)
(* Part 4  the decode machine (node_from_stream) and its projections       *)
(*         (tree, triple list, tree hash), a recursive-descent reference   *)
(* Part 5  is_canonical_serialization and the trusted length as machines   *)
(* Part 6  the property-level characterisations                            *)
(* Part 7  symbolic inputs  prefix ++ fill^n  for atoms TLC cannot hold    *)
(* Part 8  memory a decoder may ask for (C16 "without over-allocating")    *)
(***************************************************************************)
EXTENDS BigInt, Prim

SIsAtom(t) == "a" \in DOMAIN t
SAtom(b) == [a |-> b]
SPair(x, y) == [f |-> x, r |-> y]

\* Trees read from a trace may be in the FLAT form [t |-> << node, .. >>], node = [a |-> bytes]
\* or [p |-> << i, j >>] (1-based earlier entries, root last) - CONVENTIONS.md "Nesting limit".
RECURSIVE BuildFlat(_, _)
BuildFlat(tab, i) ==
  IF "a" \in DOMAIN tab[i] THEN [a |-> tab[i].a]
  ELSE [f |-> BuildFlat(tab, tab[i].p[1]), r |-> BuildFlat(tab, tab[i].p[2])]
TreeOf(j) == IF "t" \in DOMAIN j THEN BuildFlat(j.t, Len(j.t)) ELSE j

Last(s) == s[Len(s)]
Front(s) == SubSeq(s, 1, Len(s) - 1)
Rep(n, v) == [i \in 1..n |-> v]

---------------------------------------------------------------------------
(* Part 1.  Length prefix and Encode                                       *)

\* class limits of write_atom_encoding_prefix_with_size (BigInt naturals)
Lim1 == << 64 >>                     \* 0x40
Lim2 == << 0, 32 >>                  \* 0x2000
Lim3 == << 0, 0, 16 >>               \* 0x10_0000
Lim4 == << 0, 0, 0, 8 >>             \* 0x800_0000
Lim5 == << 0, 0, 0, 0, 4 >>          \* 0x4_0000_0000  (first size that cannot be serialized)
MaxAtomSize == Lim5

\* first byte of a k-byte length prefix without the size bits (k-1 one bits... plus the leading one)
Marker(k) == CASE k = 1 -> 128 [] k = 2 -> 192 [] k = 3 -> 224
               [] k = 4 -> 240 [] k = 5 -> 248 [] k = 6 -> 252

\* number of prefix bytes for an atom of n bytes whose first byte is `first`
\* (0: the byte is its own serialization, -1: cannot be serialized)
PrefixLen(n, first) ==
  IF n = << >> THEN 1
  ELSE IF n = << 1 >> /\ first < 128 THEN 0
  ELSE IF NLt(n, Lim1) THEN 1
  ELSE IF NLt(n, Lim2) THEN 2
  ELSE IF NLt(n, Lim3) THEN 3
  ELSE IF NLt(n, Lim4) THEN 4
  ELSE IF NLt(n, Lim5) THEN 5
  ELSE -1

\* the k-byte prefix carrying size n (requires n < capacity of the class):
\* big-endian size, the marker or-ed into the first byte
PrefixOfWidth(n, k) ==
  LET d == NPad(n, k)
  IN  [i \in 1..k |-> IF i = 1 THEN Marker(k) + d[k] ELSE d[k + 1 - i]]

\* number of sizes a k-byte prefix can carry: 2^(7k-1) for k <= 5; a 6-byte prefix has 41 bits
Capacity(k) == CASE k = 1 -> Lim1 [] k = 2 -> Lim2 [] k = 3 -> Lim3 [] k = 4 -> Lim4 [] k = 5 -> Lim5
                 [] k = 6 -> << 0, 0, 0, 0, 0, 2 >>

\* write_atom_encoding_prefix_with_size(f, atom_0, size)
AtomPrefix(n, first) ==
  LET k == PrefixLen(n, first)
  IN  IF k = -1 THEN [ok |-> FALSE, bytes |-> << >>]
      ELSE IF k = 0 THEN [ok |-> TRUE, bytes |-> << >>]
      ELSE [ok |-> TRUE, bytes |-> PrefixOfWidth(n, k)]

First0(b) == IF b = << >> THEN 0 ELSE b[1]
EncodeAtom(b) == AtomPrefix(N(Len(b)), First0(b)).bytes \o b

\* THE DEFINITION: classic serialization of a tree
RECURSIVE Encode(_)
Encode(t) == IF SIsAtom(t) THEN EncodeAtom(t.a) ELSE << 255 >> \o Encode(t.f) \o Encode(t.r)

\* serialized_length_atom / ObjectCache serialized_length: an independent formulation of
\* the length (never builds the bytes)
AtomSerLen(b) ==
  LET lb == Len(b)
  IN  IF lb = 0 \/ (lb = 1 /\ b[1] < 128) THEN 1
      ELSE IF lb < 64 THEN 1 + lb
      ELSE IF lb < 8192 THEN 2 + lb
      ELSE IF lb < 1048576 THEN 3 + lb
      ELSE IF lb < 134217728 THEN 4 + lb
      ELSE 5 + lb
RECURSIVE TreeSerLen(_)
TreeSerLen(t) == IF SIsAtom(t) THEN AtomSerLen(t.a) ELSE 1 + TreeSerLen(t.f) + TreeSerLen(t.r)

\* node_to_bytes_limit as the property states it: the unlimited serialization if it fits,
\* otherwise out-of-memory - wherever the limit is crossed
EncodeLimited(t, L) ==
  LET full == Encode(t)
  IN  IF Len(full) <= L THEN [ok |-> TRUE, bytes |-> full, err |-> ""]
      ELSE [ok |-> FALSE, bytes |-> << >>, err |-> "OutOfMemory"]
\* the same for any serializer whose unlimited output is known (back-references: black box)
LimitedOf(full, L) ==
  IF Len(full) <= L THEN [ok |-> TRUE, bytes |-> full, err |-> ""]
  ELSE [ok |-> FALSE, bytes |-> << >>, err |-> "OutOfMemory"]

---------------------------------------------------------------------------
(* Part 2.  The encoder machine: node_to_stream writing into a             *)
(* LimitedWriter.  One EncStep per iteration of `while let Some(v) =        *)
(* values.pop()`.  The writer is asked three kinds of writes:               *)
(*   cons-marker  f.write_all(&[0xff])                                       *)
(*   atom-prefix  the one write_all of the prefix bytes (none for a single   *)
(*                byte below 0x80)                                          *)
(*   atom-body    f.write_all(atom) (nothing is written for the empty atom)  *)
(* LimitedWriter::write refuses a buffer longer than what is left.          *)
(* lim = -1: no limit.  The property demands OutOfMemory for a refusal of    *)
(* any kind; the unrepaired code answers CodeErrAt (finding F2).            *)

EncInit(t, L) == [vals |-> << t >>, out |-> << >>, lim |-> L, st |-> "run", where |-> ""]

EncWrite(e, buf, kind) ==
  IF e.st # "run" \/ buf = << >> THEN e
  ELSE IF e.lim >= 0 /\ e.lim < Len(buf) THEN [e EXCEPT !.st = "OutOfMemory", !.where = kind]
  ELSE [e EXCEPT !.out = @ \o buf, !.lim = IF @ < 0 THEN @ ELSE @ - Len(buf)]

EncFinish(e) == IF e.st = "run" /\ e.vals = << >> THEN [e EXCEPT !.st = "ok"] ELSE e

EncStep(e) ==
  LET v == Last(e.vals)
      e0 == [e EXCEPT !.vals = Front(@)]
  IN  IF SIsAtom(v)
      THEN LET p == AtomPrefix(N(Len(v.a)), First0(v.a))
           IN  IF ~p.ok THEN [e0 EXCEPT !.st = "SerializationError", !.where = "atom-too-large"]
               ELSE EncFinish(EncWrite(EncWrite(e0, p.bytes, "atom-prefix"), v.a, "atom-body"))
      ELSE LET e1 == EncWrite(e0, << 255 >>, "cons-marker")
           IN  IF e1.st # "run" THEN e1
               ELSE [e1 EXCEPT !.vals = @ \o << v.r, v.f >>]

\* short runs only (bounded models); long runs go through Next (CONVENTIONS.md)
RECURSIVE EncRun(_)
EncRun(e) == IF e.st # "run" THEN e ELSE EncRun(EncStep(e))

\* what the code under verification answered before the repair of F2
CodeErrAt(kind) == IF kind = "atom-body" THEN "OutOfMemory" ELSE "SerializationError"

---------------------------------------------------------------------------
(* Part 3.  decode_size_with_offset and parse_atom                         *)

RECURSIVE LeadOnes(_)
LeadOnes(x) == IF x < 128 THEN 0 ELSE 1 + LeadOnes((x * 2) % 256)

DSFail == [ok |-> FALSE, k |-> 0, size |-> << >>, pos |-> 0]

\* decode_size_with_offset(f, x): x >= 0x80 is the byte just read, p the cursor after it.
\* Order as in the code: refuse 8 leading ones; read_exact of the k-1 further size bytes;
\* refuse more than 6 size bytes; refuse sizes >= 2^34.
DecodeSize(b, p, x) ==
  LET k == LeadOnes(x)
  IN  IF k >= 8 THEN DSFail
      ELSE IF p + (k - 1) > Len(b) THEN DSFail
      ELSE IF k > 6 THEN DSFail
      ELSE LET blob == << x % Pow2(8 - k) >> \o SubSeq(b, p + 1, p + k - 1)
               size == NFromBE(blob)
           IN  IF NGe(size, Lim5) THEN DSFail
               ELSE [ok |-> TRUE, k |-> k, size |-> size, pos |-> p + k - 1]

\* A decoded node remembers where it came from (what parse_triples reports):
\*   atom [a, s, e, o]  bytes, start, end, offset of the data relative to start
\*   pair [f, r, s, e]
ANode(bytes, s, e, o) == [a |-> bytes, s |-> s, e |-> e, o |-> o]
PNode(x, y) == [f |-> x, r |-> y, s |-> x.s - 1, e |-> y.e]
NoNode == [a |-> << >>, s |-> 0, e |-> 0, o |-> 0]
PAFail == [ok |-> FALSE, node |-> NoNode]

\* parse_atom: the byte at position p (not 0xff) starts an atom
ParseAtom(b, p) ==
  LET x == b[p + 1]
  IN  IF x <= 127 THEN [ok |-> TRUE, node |-> ANode(<< x >>, p, p + 1, 0)]
      ELSE IF x = 128 THEN [ok |-> TRUE, node |-> ANode(<< >>, p, p + 1, 1)]
      ELSE LET ds == DecodeSize(b, p + 1, x)
           IN  IF ~ds.ok THEN PAFail
               ELSE IF NGt(ds.size, N(Len(b) - ds.pos)) THEN PAFail      \* fewer bytes than announced
               ELSE LET n == NToInt(ds.size)
                    IN  [ok |-> TRUE,
                         node |-> ANode(SubSeq(b, ds.pos + 1, ds.pos + n), p, ds.pos + n, ds.k)]

---------------------------------------------------------------------------
(* Part 4.  The decode machine: node_from_stream.                          *)
(*   ops   op stack, top = last; "S" = ParseOp::SExp, "C" = ParseOp::Cons    *)
(*   vals  value stack, top = last                                          *)
(*   pos   cursor                                                           *)
(*   st    "run" | "ok" | "err";  fe = the error was a 0xfe in operator      *)
(*         position (back-reference marker: classic decoders must refuse)   *)
(* One DStep per iteration of `while let Some(op) = ops.pop()`; leaving the  *)
(* loop (ops empty) is folded into the step that empties the stack.          *)

DInit == [ops |-> << "S" >>, vals |-> << >>, pos |-> 0, st |-> "run", fe |-> FALSE, n |-> 0]

DFinish(d) == IF d.ops = << >> THEN [d EXCEPT !.st = "ok"] ELSE d

DStep(b, d0) ==
  LET d == [d0 EXCEPT !.n = @ + 1]              \* n counts loop iterations (termination measure)
      op == Last(d.ops)
      rest == Front(d.ops)
  IN  IF op = "C"
      THEN LET n == Len(d.vals)
           IN  DFinish([d EXCEPT !.ops = rest,
                                 !.vals = Append(SubSeq(d.vals, 1, n - 2), PNode(d.vals[n - 1], d.vals[n]))])
      ELSE IF d.pos >= Len(b) THEN [d EXCEPT !.st = "err"]                 \* read_exact fails
      ELSE LET x == b[d.pos + 1]
           IN  IF x = 255
               THEN [d EXCEPT !.ops = rest \o << "C", "S", "S" >>, !.pos = @ + 1]
               ELSE LET at == ParseAtom(b, d.pos)
                    IN  IF ~at.ok THEN [d EXCEPT !.st = "err", !.fe = (x = 254)]
                        ELSE DFinish([d EXCEPT !.ops = rest, !.vals = Append(@, at.node), !.pos = at.node.e])

\* short inputs only; long runs go through Next
RECURSIVE DRun(_, _)
DRun(b, d) == IF d.st # "run" THEN d ELSE DRun(b, DStep(b, d))

DResult(d) ==
  IF d.st = "ok" THEN [ok |-> TRUE, node |-> d.vals[1], used |-> d.pos, fe |-> FALSE, steps |-> d.n]
  ELSE [ok |-> FALSE, node |-> NoNode, used |-> 0, fe |-> d.fe, steps |-> d.n]

Decode(b) == DResult(DRun(b, DInit))

\* projection 1: the tree (node_from_bytes / node_from_stream)
RECURSIVE NodeTree(_)
NodeTree(n) == IF SIsAtom(n) THEN [a |-> n.a] ELSE [f |-> NodeTree(n.f), r |-> NodeTree(n.r)]

\* projection 2: parse_triples - nodes in pre-order; a pair carries the index of its right
\* child (its left child is the next entry), an atom the offset of its data
RECURSIVE TriplesFrom(_, _)
TriplesFrom(n, i) ==
  IF SIsAtom(n) THEN << [k |-> "a", s |-> n.s, e |-> n.e, x |-> n.o] >>
  ELSE LET lf == TriplesFrom(n.f, i + 1)
           ri == i + 1 + Len(lf)
       IN  << [k |-> "p", s |-> n.s, e |-> n.e, x |-> ri] >> \o lf \o TriplesFrom(n.r, ri)
Triples(n) == TriplesFrom(n, 0)

\* projection 3: tree_hash_from_stream
RECURSIVE TreeHash(_)
TreeHash(t) ==
  IF SIsAtom(t) THEN SHA256(<< 1 >> \o t.a)
  ELSE SHA256(<< 2 >> \o TreeHash(t.f) \o TreeHash(t.r))

\* Reference: the same language by recursive descent (no stacks).  MCSerClassic checks
\* that the machine computes exactly this.
RECURSIVE ParseAt(_, _)
ParseAt(b, p) ==
  IF p >= Len(b) THEN PAFail
  ELSE IF b[p + 1] = 255
  THEN LET l == ParseAt(b, p + 1)
       IN  IF ~l.ok THEN PAFail
           ELSE LET r == ParseAt(b, l.node.e)
                IN  IF ~r.ok THEN PAFail ELSE [ok |-> TRUE, node |-> PNode(l.node, r.node)]
  ELSE ParseAtom(b, p)

---------------------------------------------------------------------------
(* Part 5.  Counter machines of tools.rs.                                  *)

\* lower size limit for which a k-byte prefix is the shortest one
MinForPrefix(k) == CASE k = 1 -> << 1 >> [] k = 2 -> Lim1 [] k = 3 -> Lim2 [] k = 4 -> Lim3
                     [] k = 5 -> Lim4 [] k = 6 -> Lim5
\* what is_canonical_atom uses: `5 => 1 << (4 + 8 + 8 + 8)` = 2^28, not 2^27 (see MCSerClassic,
\* kind "prefix": reported as a design-level finding, the property uses MinForPrefix)
MinForPrefixCode(k) == IF k = 5 THEN << 0, 0, 0, 16 >> ELSE IF k = 6 THEN << 0, 0, 0, 0, 16 >> ELSE MinForPrefix(k)

CAFail == [ok |-> FALSE, pos |-> 0]
\* is_canonical_atom(f, first) followed by the caller's `len < position` test;
\* p is the cursor after `first`; minf is MinForPrefix or MinForPrefixCode
CanonAtomWith(b, p, first, minf(_)) ==
  IF first = 128 \/ first <= 127 THEN [ok |-> TRUE, pos |-> p]
  ELSE LET ds == DecodeSize(b, p, first)
       IN  IF ~ds.ok THEN CAFail
           ELSE IF ds.size = << 1 >>
           THEN IF ds.pos >= Len(b) THEN CAFail
                ELSE IF b[ds.pos + 1] < 128 THEN CAFail
                ELSE [ok |-> NGe(ds.size, minf(ds.k)), pos |-> ds.pos + 1]
           ELSE IF NGt(ds.size, N(Len(b) - ds.pos)) THEN CAFail              \* seek past the end
           ELSE [ok |-> NGe(ds.size, minf(ds.k)), pos |-> ds.pos + NToInt(ds.size)]

\* is_canonical_serialization: st "run" | "true" | "false"; cnt = items still to read.
\* It knows back-references (0xfe followed by a canonical atom).
CInit == [pos |-> 0, cnt |-> 1, st |-> "run"]
CNo(c) == [c EXCEPT !.st = "false"]
CFinish(b, c) ==
  IF c.cnt = 0 THEN [c EXCEPT !.st = IF c.pos = Len(b) THEN "true" ELSE "false"] ELSE c
CStepWith(b, c, minf(_)) ==
  IF c.pos >= Len(b) THEN CNo(c)
  ELSE LET x == b[c.pos + 1]
           p1 == c.pos + 1
       IN  IF x = 255 THEN CFinish(b, [c EXCEPT !.pos = p1, !.cnt = @ + 1])
           ELSE IF x = 254
           THEN IF p1 >= Len(b) THEN CNo(c)
                ELSE LET ca == CanonAtomWith(b, p1 + 1, b[p1 + 1], minf)
                     IN  IF ~ca.ok THEN CNo(c)
                         ELSE CFinish(b, [c EXCEPT !.pos = ca.pos, !.cnt = @ - 1])
           ELSE LET ca == CanonAtomWith(b, p1, x, minf)
                IN  IF ~ca.ok THEN CNo(c)
                    ELSE CFinish(b, [c EXCEPT !.pos = ca.pos, !.cnt = @ - 1])
CStep(b, c) == CStepWith(b, c, MinForPrefix)

RECURSIVE CRun(_, _)
CRun(b, c) == IF c.st # "run" THEN c ELSE CRun(b, CStep(b, c))
IsCanonical(b) == CRun(b, CInit).st = "true"

\* serialized_length_from_bytes_trusted: st "run" | "ok" | "err"
TInit == [pos |-> 0, cnt |-> 1, st |-> "run"]
TErr(c) == [c EXCEPT !.st = "err"]
TFinish(c) == IF c.cnt = 0 THEN [c EXCEPT !.st = "ok"] ELSE c
\* decode a size at cursor p (after the byte x >= 0x80), seek, and refuse a cursor past the end
TSkip(b, p, x) ==
  LET ds == DecodeSize(b, p, x)
  IN  IF ~ds.ok THEN CAFail
      ELSE IF NGt(ds.size, N(Len(b) - ds.pos)) THEN CAFail
      ELSE [ok |-> TRUE, pos |-> ds.pos + NToInt(ds.size)]
TStep(b, c) ==
  IF c.pos >= Len(b) THEN TErr(c)
  ELSE LET x == b[c.pos + 1]
           p1 == c.pos + 1
       IN  IF x = 255 THEN TFinish([c EXCEPT !.pos = p1, !.cnt = @ + 1])
           ELSE IF x = 254
           THEN IF p1 >= Len(b) THEN TErr(c)
                ELSE LET y == b[p1 + 1]
                     IN  IF y <= 127 THEN TFinish([c EXCEPT !.pos = p1 + 1, !.cnt = @ - 1])
                         ELSE LET sk == TSkip(b, p1 + 1, y)
                              IN  IF ~sk.ok THEN TErr(c)
                                  ELSE TFinish([c EXCEPT !.pos = sk.pos, !.cnt = @ - 1])
           ELSE IF x = 128 \/ x <= 127 THEN TFinish([c EXCEPT !.pos = p1, !.cnt = @ - 1])
           ELSE LET sk == TSkip(b, p1, x)
                IN  IF ~sk.ok THEN TErr(c)
                    ELSE TFinish([c EXCEPT !.pos = sk.pos, !.cnt = @ - 1])
RECURSIVE TRun(_, _)
TRun(b, c) == IF c.st # "run" THEN c ELSE TRun(b, TStep(b, c))
LenTrusted(b) == LET c == TRun(b, TInit) IN [ok |-> c.st = "ok", v |-> IF c.st = "ok" THEN c.pos ELSE 0]

\* serialized_length_from_bytes (the validating one) on inputs without a back-reference
\* marker in operator position runs the very loop of node_from_stream (with a cons list
\* as the value stack), so it is a projection of the decode machine.  With a marker it
\* belongs to SerBackrefs.tla; here the specification abstains (dec.fe).
LenUntrustedOf(dec) == [ok |-> dec.ok, v |-> dec.used]

---------------------------------------------------------------------------
(* Part 6.  Property-level statements (evaluated by MCSerClassic on the     *)
(* bounded universe, by TraceSerClassic on recorded calls).                *)

\* C15 for a tree; e = Encode(t)
TreeLawsOn(t, e) ==
  LET d == Decode(e)
  IN  /\ d.ok /\ d.used = Len(e) /\ NodeTree(d.node) = t          \* round trip
      /\ d.steps <= 2 * Len(e) + 1
      /\ IsCanonical(e)
      /\ LenTrusted(e) = [ok |-> TRUE, v |-> Len(e)]
      /\ LenUntrustedOf(d) = [ok |-> TRUE, v |-> Len(e)]
      /\ TreeSerLen(t) = Len(e)
      /\ LET m == EncRun(EncInit(t, -1)) IN m.st = "ok" /\ m.out = e      \* the writer loop computes Encode
TreeLaws(t) == TreeLawsOn(t, Encode(t))

\* the declarative meaning of "canonical" (C16): the whole input is one tree whose
\* re-serialization reproduces it
CanonicalByDefinition(b, d) == d.ok /\ d.used = Len(b) /\ Encode(NodeTree(d.node)) = b

\* C15 (converse) and C16 for a byte string; d = Decode(b), cn = IsCanonical(b), lt = LenTrusted(b)
BytesLawsOn(b, d, cn, lt) ==
  LET r == ParseAt(b, 0)
  IN  /\ d.steps <= 2 * Len(b) + 1                   \* terminates: a step consumes a byte or retires a cons
      /\ d.ok = r.ok /\ (d.ok => d.node = r.node /\ d.used = r.node.e)      \* machine = recursive descent
      /\ d.ok => (cn <=> CanonicalByDefinition(b, d))
      /\ (d.ok /\ cn) => Encode(NodeTree(d.node)) = SubSeq(b, 1, d.used)
      /\ (~d.ok /\ cn) => d.fe                       \* only back-references make the two differ
      /\ d.ok => lt = [ok |-> TRUE, v |-> d.used]
      /\ (~d.ok /\ ~d.fe) => ~lt.ok
      /\ d.ok => /\ d.node.s = 0 /\ d.node.e = d.used
                 /\ LET tr == Triples(d.node) IN tr[1].e = d.used
BytesLaws(b) == BytesLawsOn(b, Decode(b), IsCanonical(b), LenTrusted(b))

---------------------------------------------------------------------------
(* Where does byte number L+1 of a serialization (classic or with            *)
(* back-references) fall?  Used to name the class of a failing limit (C29):  *)
(* one kind per byte of `full`.                                              *)
RECURSIVE KindsFrom(_, _, _, _)
KindsFrom(b, p, cnt, path) ==
  IF p >= Len(b) THEN << >>
  ELSE IF cnt = 0 THEN Rep(Len(b) - p, "trailing")
  ELSE LET x == b[p + 1]
       IN  IF ~path /\ x = 255 THEN << "cons-marker" >> \o KindsFrom(b, p + 1, cnt + 1, FALSE)
           ELSE IF ~path /\ x = 254 THEN << "backref-marker" >> \o KindsFrom(b, p + 1, cnt, TRUE)
           ELSE IF x <= 127 THEN << "atom-body" >> \o KindsFrom(b, p + 1, cnt - 1, FALSE)
           ELSE LET ds == DecodeSize(b, p + 1, x)
                IN  IF ~ds.ok \/ NGt(ds.size, N(Len(b) - ds.pos)) THEN Rep(Len(b) - p, "trailing")
                    ELSE Rep(ds.k, "atom-prefix") \o Rep(NToInt(ds.size), "atom-body")
                           \o KindsFrom(b, ds.pos + NToInt(ds.size), cnt - 1, FALSE)
ByteKinds(full) == KindsFrom(full, 0, 1, FALSE)
WhereCrossed(full, L) == IF L < Len(full) THEN ByteKinds(full)[L + 1] ELSE "fits"

---------------------------------------------------------------------------
(* Part 7.  Symbolic inputs  P ++ fill^n : P is a complete length prefix    *)
(* (Len(P) = LeadOnes(P[1]) >= 1), followed by `have` bytes of value fill.  *)
(* n and have are BigInt naturals.  Everything the decoders report about    *)
(* such an input is a function of P, have and fill.                         *)

SymDecode(P, have) ==
  LET ds == DecodeSize(P, 1, P[1])
  IN  IF ~ds.ok \/ NGt(ds.size, have) THEN [ok |-> FALSE, used |-> << >>, size |-> << >>, k |-> 0]
      ELSE [ok |-> TRUE, used |-> NAddI(ds.size, ds.k), size |-> ds.size, k |-> ds.k]

\* canonical: the whole input is the one atom fill^size with the shortest prefix
SymCanonical(P, have, fill) ==
  LET d == SymDecode(P, have)
  IN  /\ d.ok
      /\ d.size = have
      /\ LET ap == AtomPrefix(d.size, fill) IN ap.ok /\ ap.bytes = P
---------------------------------------------------------------------------
(* Part 8.  C16 "without over-allocating".  What a classic decoder keeps on   *)
(* the heap is proportional to what it has read: per node a value-stack or    *)
(* result entry (parse_triples: a 24-byte triple and a 32-byte hash;           *)
(* tree_hash_from_stream: a 32-byte hash; node_from_stream: 4-byte NodePtr,    *)
(* 8-byte pair, 8-byte atom descriptor), per operator-stack entry at most 16   *)
(* bytes, per atom byte one byte in the Allocator's heap; every one of these   *)
(* lives in a Vec that grows by doubling (capacity <= 2 x length) and whose    *)
(* old block lives until the new one is filled (+ 1 x): at most               *)
(* 3 x (24 + 32) = 168 bytes per node.  Nodes read <= bytes read.  Nothing is   *)
(* ever sized from a length prefix before the bytes have been seen.  Hence     *)
(* neither a single request nor the peak of additional live bytes exceeds      *)
(*     MemC * (input length + node count) + MemK                               *)
(* where node count = nodes of the result, or the input length when the input  *)
(* is refused (nodes parsed before the refusal).  MemK covers the first,       *)
(* minimum-capacity blocks of the Vecs.  Measured on the unchanged code:       *)
(* slope <= 75 bytes per input byte (parse_triples with hashes).               *)
(* serialized_length_from_bytes creates its own Allocator, which reserves      *)
(* 1 MiB + 2 x 256 x 8 bytes when created (Allocator::new_limited); the other   *)
(* calls are measured from after their Allocator exists.                      *)
MemC == 128
MemK == 4096
AllocatorReserve == 1048576 + 2048 + 2048
MemBound(len, nodes) == MemC * (len + nodes) + MemK
RECURSIVE NodeCount(_)
NodeCount(n) == IF SIsAtom(n) THEN 1 ELSE 1 + NodeCount(n.f) + NodeCount(n.r)
\* d = DResult of the decode machine on b
MemBoundFor(b, d) == MemBound(Len(b), IF d.ok THEN NodeCount(d.node) ELSE Len(b))
MemOk(mem, bound) == mem.req <= bound /\ mem.peak <= bound
=============================================================================
