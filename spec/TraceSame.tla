----------------------------- MODULE TraceSame -----------------------------
(* C05: the traces recorded by separately built harness binaries (default,  *)
(* no-fastpath, counters+pre-eval with an observe-only callback) from the    *)
(* same seeded generator must be identical line by line: same inputs, same   *)
(* results, costs, error messages and allocator counters.                    *)
EXTENDS TLC, Json, IOUtils, Sequences, Naturals

A == ndJsonDeserialize(IOEnv.TRACE_A)
B == ndJsonDeserialize(IOEnv.TRACE_B)
D == ndJsonDeserialize(IOEnv.TRACE_C)

VARIABLE l
Min3 == LET m == IF Len(A) < Len(B) THEN Len(A) ELSE Len(B) IN IF m < Len(D) THEN m ELSE Len(D)

Init == l = 1
Next == /\ l <= Min3
        /\ IF A[l] = B[l] /\ A[l] = D[l] THEN TRUE
           ELSE PrintT(<< "MISMATCH", ToJson([kind |-> "build", line |-> l, default |-> A[l],
                                               nofast |-> B[l], diag |-> D[l]]) >>)
        /\ l' = l + 1
Done == l = Min3 + 1 =>
          PrintT(<< "TRACE-DONE", ToJson([lines |-> l - 1, a |-> Len(A), b |-> Len(B), c |-> Len(D)]) >>)
=============================================================================
