-------------------------- MODULE IncrementalMech --------------------------
(* The MECHANISM of the incremental serializer, transcribed from            *)
(* src/serde/tree_cache.rs (TreeCache: node_map, node_entries with parent   *)
(* links, value de-duplication, parse-stack mirror, serialized_nodes,       *)
(* update(), undo_state()/restore(), find_path()) and                       *)
(* src/serde/incremental.rs (Serializer: read_op_stack, write_stack, add(), *)
(* restore()), small enough for TLC to explore every add/undo history over  *)
(* a small universe.  The abstract machine of Incremental.tla runs in       *)
(* parallel (variable s) so that the history classes are available.         *)
(*                                                                          *)
(* What is modelled exactly: which shadow entries exist, their parent       *)
(* links (update() MOVES the parents of the previous sentinel entry to the  *)
(* new root; restore() puts back stack, serialized_nodes and                *)
(* node_map[sentinel] but NOT the parent links nor the entries), the parse  *)
(* stack mirror, and find_path() as "a shortest upward chain of parent      *)
(* links from the node's entry to an entry on the parse stack".             *)
(* The model additionally keeps vstack, the tree each parse-stack slot      *)
(* really holds, and judges every back-reference the code can emit:         *)
(*   may   some shortest chain denotes a tree different from the node       *)
(*   must  every shortest chain does (the emitted bytes are certainly wrong)*)
(* (the code breaks ties between equally short chains by BFS order, which   *)
(* is not modelled; MAX_PARENTS eviction is not reached at this scope).     *)
(*                                                                          *)
(* MECH = "code"  : the design as it is.  TLC shows (invariant              *)
(*     BadImpliesClass) that every history with a wrong back-reference is   *)
(*     in class F6a, F6b (or F6c when allocator nodes are reused), and      *)
(*     emits those histories (MECH lines) - i.e. it FINDS the F6 histories  *)
(*     from the design.                                                     *)
(* MECH = "fixed" : restore() also puts back entries/parent links/node_map, *)
(*     every sentinel occurrence keeps its own entry (consumed in           *)
(*     pre-order) and sentinel-bearing nodes are never taken from node_map. *)
(*     TLC shows that no history of the scope has a wrong back-reference    *)
(*     (invariant NeverBad) - the two mechanisms named in DESIGN.md are the *)
(*     whole story at this scope.                                           *)
(* REUSE = "1" : equal sub-tree values are the same allocator node (NodePtr)*)
EXTENDS Incremental, TLC, Json, IOUtils, FiniteSets

Env(k, d) == IF k \in DOMAIN IOEnv THEN IOEnv[k] ELSE d
Mech  == Env("MECH", "code")
Fixed == Mech = "fixed"
Reuse == Env("REUSE", "0") = "1"
Conf  == Env("CONF", "deep")
DepthS == Env("DEPTH", "3")
Depth == CASE DepthS = "1" -> 1 [] DepthS = "2" -> 2 [] DepthS = "3" -> 3 [] DepthS = "4" -> 4
           [] DepthS = "5" -> 5 [] DepthS = "6" -> 6 [] OTHER -> 3

S == Atom(<< 83, 69, 78, 84, 73, 78, 69, 76, 33, 33 >>)
A == Atom(<< 1, 2, 3 >>)
B == Atom(<< 4, 5, 6, 7 >>)
N == Nil
\* the same universes as MCIncremental (so that the emitted histories can be compared with the replay)
U == CASE Conf = "deep" -> << Pair(A, S), Pair(S, A), Pair(Pair(A, S), A), Pair(Pair(S, A), B), Pair(A, Pair(S, B)),
                              Pair(S, S), A, N, Pair(A, B), S >>
       [] Conf = "six"  -> << Pair(A, S), Pair(Pair(S, A), A), Pair(S, S), A >>
       [] OTHER -> << Pair(A, S), Pair(S, A), A, N >>

---------------------------------------------------------------------------
(* Shadow entries.  [k: "a" atom | "p" pair | "s" sentinel, l, r: child     *)
(* entries of a pair, val: the tree (meaningful iff slen > 0), slen:        *)
(* serialized length, 0 for the sentinel and everything above it, par:      *)
(* parent links << parent entry, 0 left | 1 right >>]                       *)

SentEntry == [k |-> "s", l |-> 0, r |-> 0, val |-> N, slen |-> 0, par |-> << >>]

RECURSIVE FindAtomFrom(_, _, _)
FindAtomFrom(E, t, i) ==            \* atom_lookup
  IF i > Len(E) THEN 0 ELSE IF E[i].k = "a" /\ E[i].val.a = t.a THEN i ELSE FindAtomFrom(E, t, i + 1)
RECURSIVE FindPairFrom(_, _, _, _)
FindPairFrom(E, l, r, i) ==         \* pair_lookup, key = (left entry, right entry)
  IF i > Len(E) THEN 0 ELSE IF E[i].k = "p" /\ E[i].l = l /\ E[i].r = r THEN i ELSE FindPairFrom(E, l, r, i + 1)
RECURSIVE MapGetFrom(_, _, _)
MapGetFrom(nm, t, i) ==             \* node_map for pair nodes (only used when nodes are reused): << tree, entry >>
  IF i > Len(nm) THEN 0 ELSE IF TEq(nm[i][1], t) THEN nm[i][2] ELSE MapGetFrom(nm, t, i + 1)
MapGet(nm, t) == MapGetFrom(nm, t, 1)

\* annotated nodes: [i: entry (node_map[node]), t: the tree, f, r: annotated children of a pair]
RECURSIVE Annot(_, _)               \* a node already in node_map: the entries of all its sub-nodes come from the map
Annot(m, t) ==
  IF TEq(t, S) THEN [i |-> 0, t |-> t]
  ELSE IF IsAtom(t) THEN [i |-> FindAtomFrom(m.E, t, 1), t |-> t]
  ELSE [i |-> MapGet(m.nmap, t), t |-> t, f |-> Annot(m, t.f), r |-> Annot(m, t.r)]

\* TreeCache::update, the traversal (left before right, pairs on the way back)
RECURSIVE Upd(_, _)
Upd(m, t) ==
  IF TEq(t, S) THEN
    LET idx == Len(m.E) + 1 IN
    [m |-> [m EXCEPT !.E = Append(@, SentEntry), !.sent = idx, !.newS = Append(@, idx)], n |-> [i |-> idx, t |-> t]]
  ELSE IF IsAtom(t) THEN
    LET j == FindAtomFrom(m.E, t, 1) IN
    IF j # 0 THEN [m |-> m, n |-> [i |-> j, t |-> t]]
    ELSE [m |-> [m EXCEPT !.E = Append(@, [k |-> "a", l |-> 0, r |-> 0, val |-> t, slen |-> SerLen(t), par |-> << >>])],
          n |-> [i |-> Len(m.E) + 1, t |-> t]]
  ELSE IF Reuse /\ MapGet(m.nmap, t) # 0 /\ ~(Fixed /\ Count(t, S) > 0)
    THEN [m |-> m, n |-> Annot(m, t)]                     \* node_map hit: "already traversed, no need to do it again"
  ELSE
    LET a  == Upd(m, t.f)
        b  == Upd(a.m, t.r)
        E0 == b.m.E
        li == a.n.i
        ri == b.n.i
        j  == FindPairFrom(E0, li, ri, 1)
        idx == IF j # 0 THEN j ELSE Len(E0) + 1
        sl == IF E0[li].slen > 0 /\ E0[ri].slen > 0 THEN 1 + E0[li].slen + E0[ri].slen ELSE 0
        E1 == IF j # 0 THEN E0
              ELSE Append(E0, [k |-> "p", l |-> li, r |-> ri, val |-> IF sl > 0 THEN t ELSE N, slen |-> sl, par |-> << >>])
        E2 == [E1 EXCEPT ![li].par = Append(@, << idx, 0 >>)]
        E3 == [E2 EXCEPT ![ri].par = Append(@, << idx, 1 >>)]
    IN [m |-> [b.m EXCEPT !.E = E3, !.nmap = IF Reuse THEN Append(@, << t, idx >>) ELSE @],
        n |-> [i |-> idx, t |-> t, f |-> a.n, r |-> b.n]]

\* TreeCache::update: the parents of the entry the sentinel maps to are MOVED to the root of the new tree
Update(m, t) ==
  LET src == IF Fixed THEN (IF m.sentQ # << >> THEN m.sentQ[1] ELSE 0) ELSE m.sent
      rp  == IF src # 0 THEN m.E[src].par ELSE << >>
      m1  == IF src # 0 THEN [m EXCEPT !.E[src].par = << >>] ELSE m
      u   == Upd([m1 EXCEPT !.newS = << >>], t)
      m2  == [u.m EXCEPT !.E[u.n.i].par = @ \o rp]
  IN [m |-> [m2 EXCEPT !.sentQ = m2.newS \o (IF m.sentQ # << >> THEN Tail(m.sentQ) ELSE << >>)], n |-> u.n]

---------------------------------------------------------------------------
(* parse stack mirror                                                       *)

Push(m, idx, val) ==
  [m EXCEPT !.stack = Append(@, idx), !.vstack = Append(@, val),
            !.ser = IF m.E[idx].slen >= 4 THEN @ \cup {idx} ELSE @]
Pop2Cons(m, idx) ==
  LET n == Len(m.stack)
      v == Pair(m.vstack[n - 1], m.vstack[n])
  IN Push([m EXCEPT !.stack = SubSeq(@, 1, n - 2), !.vstack = SubSeq(@, 1, n - 2)], idx, v)

\* distance from the top of the top-most slot holding entry idx
RECURSIVE TopPos(_, _, _)
TopPos(stack, idx, i) == IF stack[i] = idx THEN Len(stack) - i ELSE TopPos(stack, idx, i - 1)
OnStack(m, idx) == \E i \in 1..Len(m.stack) : m.stack[i] = idx

\* every simple upward chain from entry cur to an entry on the parse stack:
\* [k: slots below the top, steps: child positions from that slot's tree down to the target]
RECURSIVE Up(_, _, _, _)
Up(m, cur, steps, vis) ==
  (IF OnStack(m, cur) THEN {[k |-> TopPos(m.stack, cur, Len(m.stack)), steps |-> steps]} ELSE {})
  \cup UNION { Up(m, m.E[cur].par[j][1], << m.E[cur].par[j][2] >> \o steps, vis \cup {m.E[cur].par[j][1]}) :
                 j \in {jj \in 1..Len(m.E[cur].par) : m.E[cur].par[jj][1] \notin vis} }
Bits(c) == c.k + 1 + Len(c.steps)              \* path length without the terminator bit

RECURSIVE Down(_, _, _)
Down(t, steps, i) ==
  IF i > Len(steps) THEN [ok |-> TRUE, t |-> t]
  ELSE IF IsAtom(t) THEN [ok |-> FALSE, t |-> t]
  ELSE Down(IF steps[i] = 1 THEN t.r ELSE t.f, steps, i + 1)
Sound(m, c, want) ==
  LET d == Down(m.vstack[Len(m.vstack) - c.k], c.steps, 1) IN d.ok /\ TEq(d.t, want)

\* serialized length of a path of n bits (plus terminator) as an atom, and the code's two length limits
PathSer(n) == LET by == ((n + 1) + 7) \div 8 IN IF by = 1 /\ n + 1 <= 7 THEN 1 ELSE 1 + by
FindPath(m, node) ==
  LET idx == node.i IN
  IF TEq(node.t, N) \/ idx \notin m.ser \/ m.E[idx].slen < 4 THEN [found |-> FALSE, may |-> FALSE, must |-> FALSE]
  ELSE LET ch == Up(m, idx, << >>, {idx}) IN
    IF ch = {} THEN [found |-> FALSE, may |-> FALSE, must |-> FALSE]
    ELSE LET best == CHOOSE b \in {Bits(c) : c \in ch} : \A c \in ch : b <= Bits(c)
             sh == {c \in ch : Bits(c) = best}
         IN IF best > (m.E[idx].slen - 1) * 8 \/ PathSer(best) + 1 > m.E[idx].slen
            THEN [found |-> FALSE, may |-> FALSE, must |-> FALSE]
            ELSE [found |-> TRUE, may |-> \E c \in sh : ~Sound(m, c, node.t), must |-> \A c \in sh : ~Sound(m, c, node.t)]

---------------------------------------------------------------------------
(* Serializer::add / restore                                                *)

RECURSIVE Unwind(_)
Unwind(m) ==
  IF m.rs # << >> /\ m.rs[Len(m.rs)].op = "C"
  THEN Unwind(Pop2Cons([m EXCEPT !.rs = SubSeq(@, 1, Len(@) - 1)], m.rs[Len(m.rs)].i))
  ELSE m

RECURSIVE Loop(_)
Loop(m) ==
  IF m.ws = << >> THEN [m EXCEPT !.fin = TRUE]                       \* Ok((true, undo_state))
  ELSE LET node == m.ws[Len(m.ws)]
           m1 == [m EXCEPT !.ws = SubSeq(@, 1, Len(@) - 1)]
       IN IF TEq(node.t, S) THEN m1                                    \* stop at the sentinel: not done
          ELSE LET m2 == [m1 EXCEPT !.rs = SubSeq(@, 1, Len(@) - 1)]   \* pop the Parse op
                   fp == FindPath(m2, node)
                   m3 == IF fp.found
                           THEN Push([m2 EXCEPT !.may = @ \/ fp.may, !.must = @ \/ fp.must, !.refs = @ + 1], node.i, node.t)
                         ELSE IF IsAtom(node.t) THEN Push(m2, node.i, node.t)
                         ELSE [m2 EXCEPT !.ws = @ \o << node.r, node.f >>,
                                         !.rs = @ \o << [op |-> "C", i |-> node.i], [op |-> "P", i |-> 0], [op |-> "P", i |-> 0] >>]
               IN Loop(Unwind(m3))

Checkpoint(m) ==
  [rs |-> m.rs, ws |-> m.ws, stack |-> m.stack, vstack |-> m.vstack, ser |-> m.ser, sent |-> m.sent,
   may |-> m.may, must |-> m.must, refs |-> m.refs,
   E |-> IF Fixed THEN m.E ELSE << >>, nmap |-> IF Fixed THEN m.nmap ELSE << >>, sentQ |-> IF Fixed THEN m.sentQ ELSE << >>]

AddM(m, t) ==
  LET cp == Checkpoint(m)
      u  == Update(m, t)
  IN Loop([u.m EXCEPT !.ws = Append(@, u.n), !.cps = Append(@, cp)])

RestoreM(m, k) ==
  LET n  == Len(m.cps) - k
      cp == m.cps[n + 1]
      m1 == [m EXCEPT !.rs = cp.rs, !.ws = cp.ws, !.stack = cp.stack, !.vstack = cp.vstack, !.ser = cp.ser,
                      !.sent = IF cp.sent # 0 THEN cp.sent ELSE @,      \* `if let Some(sentinel_entry)` - else untouched
                      !.may = cp.may, !.must = cp.must, !.refs = cp.refs, !.fin = FALSE, !.cps = SubSeq(@, 1, n)]
  IN IF Fixed THEN [m1 EXCEPT !.E = cp.E, !.nmap = cp.nmap, !.sentQ = cp.sentQ, !.sent = cp.sent] ELSE m1

InitM ==
  [E |-> << >>, nmap |-> << >>, sent |-> 0, sentQ |-> << >>, newS |-> << >>, stack |-> << >>, vstack |-> << >>,
   ser |-> {}, rs |-> << [op |-> "P", i |-> 0] >>, ws |-> << >>, cps |-> << >>,
   may |-> FALSE, must |-> FALSE, refs |-> 0, fin |-> FALSE]

---------------------------------------------------------------------------
VARIABLES m, s, h

Init == m = InitM /\ s = InitState(S) /\ h = << >>

AddCall(i) ==
  /\ CanAdd(s) /\ Len(h) < Depth
  /\ s' = AddS(s, U[i], 0)
  /\ m' = AddM(m, U[i])
  /\ h' = Append(h, i)
UndoCall(k) ==
  /\ CanUndo(s, k) /\ Len(h) < Depth
  /\ s' = UndoS(s, k)
  /\ m' = RestoreM(m, k)
  /\ h' = Append(h, 0 - k)
Next == (\E i \in 1..Len(U) : AddCall(i)) \/ (\E k \in 1..Depth : UndoCall(k))

\* the mechanism completes exactly when the abstract machine does, and then (unless a wrong back-reference was
\* emitted) the parse stack holds exactly the assembled tree
DoneAgrees == m.fin = s.done
StackHoldsTree == (s.done /\ ~m.may) => (Len(m.vstack) = 1 /\ TEq(m.vstack[1], s.part))
\* design-level theorem at this scope: a wrong back-reference only in the known history classes
BadImpliesClass == m.may => Class(s, Reuse) # "none"
NeverBad == Fixed => ~m.may

Laws ==
  /\ DoneAgrees
  /\ StackHoldsTree
  /\ BadImpliesClass
  /\ NeverBad
  /\ IF s.done
     THEN PrintT(<< "MECH", ToJson([c |-> h, may |-> m.may, must |-> m.must, refs |-> m.refs, cls |-> Class(s, Reuse)]) >>)
     ELSE TRUE
=============================================================================
