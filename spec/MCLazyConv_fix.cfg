CONSTANT Kind = "fresh"
CONSTANT KeepAlive = TRUE
CONSTANT NAddr = 7
CONSTANT MaxLeaves = 4
CONSTANT Trees <- AllTrees
INIT Init
NEXT Next
INVARIANT Correct
INVARIANT NoPanic
INVARIANT MemoSound
INVARIANT EnoughAddresses
CHECK_DEADLOCK FALSE
