----------------------------- MODULE ApaUnknown -----------------------------
(***************************************************************************)
(* C09, unbounded side lemma (Apalache): the last step of op_unknown       *)
(* (src/more_ops.rs).  After the base cost b (u64, >= 1: `assert!(cost >   *)
(* 0)`) has been computed from the argument sizes, it is multiplied by     *)
(* m = multiplier + 1  (the multiplier is a u32, so 1 <= m <= 2^32):       *)
(*                                                                         *)
(*   before the hard fork   cost = b.wrapping_mul(m)        (mod 2^64)     *)
(*   NEW_COST_MODEL         cost = b.checked_mul(m) or fail CostExceeded   *)
(*   then                   cost > u32::MAX  =>  fail Invalid, else Ok(cost)*)
(*                                                                         *)
(* The published rule: the operator costs b * m and is invalid when that   *)
(* exceeds 2^32 - 1.                                                       *)
(*                                                                         *)
(* Lemmas (Apalache integers are unbounded, so b * m is the true product): *)
(*   1  the wrapping rule HAS an overflow corner: there are b, m with      *)
(*      b * m >= 2^64 and (b * m) mod 2^64 <= 2^32 - 1, i.e. the code      *)
(*      accepts with a cost that is not the product (finding F4).          *)
(*      1a  --init=InitWitness --inv=Corner   --length=0  : the recorded   *)
(*          witness b = 4303875011 (mul-like base of two 741456-byte       *)
(*          atoms), m = 0xff785c42 (opcode ff785c4180) IS such a case      *)
(*      1b  --init=InitFixedM --inv=NoCorner --length=0  must FAIL: the    *)
(*          counterexample Apalache returns is a witness (m fixed to the   *)
(*          recorded multiplier, b free: linear arithmetic)                *)
(*      1c  --init=InitMul    --inv=NoCorner --length=0  must FAIL (b and  *)
(*          m both free: non-linear, best effort, may time out)            *)
(*   2  the checked rule has no such case:                                 *)
(*      --init=InitAbs --inv=CheckedIsPublished --length=0                 *)
(*   3  outside the corner the wrapping rule is the published rule:        *)
(*      --init=InitAbs --inv=WrappingIsPublishedBelow64 --length=0         *)
(*   4  every disagreement of the wrapping rule with the published rule is *)
(*      the corner:  --init=InitAbs --inv=OnlyTheCorner --length=0         *)
(* InitAbs over-approximates the multiplication (prod is ANY integer >= b  *)
(* and >= m), so 2-4 hold for every product a fortiori and stay linear.    *)
(***************************************************************************)
EXTENDS Integers

VARIABLES
  \* @type: Int;
  b,
  \* @type: Int;
  m,
  \* @type: Int;
  prod

TwoTo64 == 18446744073709551616
TwoTo32 == 4294967296
U32Max == 4294967295
U64Max == 18446744073709551615

WitnessB == 4303875011          \* 92 + 885 + (741456 + 741456) * 6 + (741456 * 741456) \div 128
WitnessM == 4286078018          \* 0xff785c41 + 1

Ranges == b >= 1 /\ b <= U64Max /\ m >= 1 /\ m <= TwoTo32

InitWitness == b = WitnessB /\ m = WitnessM /\ prod = WitnessB * WitnessM
InitFixedM == b \in Int /\ m = WitnessM /\ prod = b * 4286078018 /\ Ranges
InitMul == b \in Int /\ m \in Int /\ prod = b * m /\ Ranges
InitAbs == b \in Int /\ m \in Int /\ prod \in Int /\ Ranges /\ prod >= b /\ prod >= m
Next == UNCHANGED << b, m, prod >>

\* ---- the three rules, as (accepted?, cost) ----
Wrapped == prod % TwoTo64
WrapOk == Wrapped <= U32Max                         \* else Invalid
WrapCost == Wrapped

CheckedOk == prod <= U64Max /\ prod <= U32Max       \* checked_mul succeeds, then the u32 test
CheckedCost == prod

PubOk == prod <= U32Max
PubCost == prod

\* ---- lemma 1 ----
Corner == prod >= TwoTo64 /\ Wrapped <= U32Max
NoCorner == ~Corner

\* ---- lemma 2 ----
CheckedIsPublished ==
  /\ CheckedOk <=> PubOk
  /\ CheckedOk => CheckedCost = PubCost
  /\ ~(prod > U32Max /\ CheckedOk)                  \* no acceptance with a true product above 2^32 - 1

\* ---- lemma 3 ----
WrappingIsPublishedBelow64 ==
  prod < TwoTo64 => /\ WrapOk <=> PubOk
                    /\ WrapOk => WrapCost = PubCost

\* ---- lemma 4 ----
OnlyTheCorner ==
  (~(WrapOk <=> PubOk) \/ (WrapOk /\ WrapCost # PubCost)) => Corner
=============================================================================
