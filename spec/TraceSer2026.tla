--------------------------- MODULE TraceSer2026 ---------------------------
(* Trace validation (implementation -> specification) for C20.              *)
(* Every line of the ndjson trace is one call of the public serde_2026 API  *)
(* (or of the classic decoders on a MAGIC-prefixed blob).  The machines of   *)
(* Ser2026.tla are re-executed on the recorded input, one TLC state per      *)
(* machine step (all machines of a line advance in lock step); when they     *)
(* are done the recorded observables are compared.  A line that disagrees    *)
(* prints MISMATCH (property observable) or DRIFT (exact serializer bytes:   *)
(* a diagnostic, the property only needs decode(blob) = tree) and            *)
(* validation continues with the next line.                                  *)
(*                                                                           *)
(*  ser   tree, level, ok, blob            serialize_2026                    *)
(*  de    blob, strict, max, ok, nodes, [tree], used, same, probe            *)
(*  len   blob, strict, max, ok, len       serialized_length_serde_2026      *)
(*  magic blob, res: name -> "ok" | "err" | "panic"   classic decoders       *)
EXTENDS Ser2026, TLC, Json, IOUtils

Rec == ndJsonDeserialize(IOEnv.TRACE)

VARIABLES l, m

Has(e, f) == f \in DOMAIN e
UMax == << 255, 255, 255, 255, 255, 255, 255, 255 >>        \* usize::MAX

\* machines of a line: name -> [mk |-> "D" | "P" | "S", strict, s |-> machine state]
Start(k) ==
  IF k > Len(Rec) THEN << >>
  ELSE LET e == Rec[k] IN
       IF e.ev = "ser" /\ Has(e, "blob")
       THEN [ser |-> [mk |-> "S", strict |-> FALSE, s |-> SInit(TreeOf(e.tree))],
             ds  |-> [mk |-> "D", strict |-> TRUE,  s |-> DInit],
             dl  |-> [mk |-> "D", strict |-> FALSE, s |-> DInit],
             ps  |-> [mk |-> "P", strict |-> TRUE,  s |-> PInit],
             pl  |-> [mk |-> "P", strict |-> FALSE, s |-> PInit]]
       ELSE IF e.ev = "de" THEN [d |-> [mk |-> "D", strict |-> e.strict, s |-> DInit]]
       ELSE IF e.ev = "len" THEN [p |-> [mk |-> "P", strict |-> e.strict, s |-> PInit]]
       ELSE << >>

MDone(x) == IF x.mk = "S" THEN SDone(x.s) ELSE DDone(x.s)
AllDone == \A k \in DOMAIN m : MDone(m[k])

CfOf(e, strict) == [b |-> e.blob, max |-> IF Has(e, "max") THEN e.max ELSE UMax, strict |-> strict]
MStep(e, x) ==
  IF MDone(x) THEN x
  ELSE IF x.mk = "S" THEN [x EXCEPT !.s = SStep(@)]
  ELSE IF x.mk = "D" THEN [x EXCEPT !.s = DStep(CfOf(e, x.strict), @)]
  ELSE [x EXCEPT !.s = PStep(CfOf(e, x.strict), @)]

---------------------------------------------------------------------------
(* property-level comparison of one finished line *)

SerOk(e) ==
  /\ ~Has(e, "panic") /\ e.ok /\ Has(e, "blob")
  /\ LET t == TreeOf(e.tree)
         want == [ok |-> TRUE, tree |-> t, used |-> Len(e.blob)]
     IN  /\ DResult(m.ds.s) = want                 \* the blob denotes the tree, strict
         /\ DResult(m.dl.s) = want                 \* and lenient, consuming all of it
         /\ PResult(m.ps.s) = [ok |-> TRUE, len |-> Len(e.blob)]
         /\ PResult(m.pl.s) = [ok |-> TRUE, len |-> Len(e.blob)]
SerExact(e) == Has(e, "blob") => m.ser.s.blob = e.blob

DeOk(e) ==
  LET d == m.d.s IN
  /\ ~Has(e, "panic")
  /\ e.same                                         \* slice / stream / body entry points agree
  /\ e.ok = (d.ph = "ok")
  /\ e.ok => /\ e.used = d.pos
             /\ e.nodes = DNodes(d)
             /\ Has(e, "tree") => TreeOf(e.tree) = DTree(d)
             /\ e.probe.ok /\ e.probe.len = e.used  \* probe = consumed, on the recorded values themselves
  /\ e.probe.ok \in BOOLEAN

LenOk(e) ==
  LET p == PResult(m.p.s) IN
  /\ ~Has(e, "panic")
  /\ e.ok = p.ok
  /\ e.ok => e.len = p.len

MagicOk(e) ==
  /\ HasMagic(e.blob)
  /\ ClassicFirstObjectRejected(e.blob)
  /\ \A k \in DOMAIN e.res : e.res[k] = "err"

LineOk(e) ==
  CASE e.ev = "ser" -> SerOk(e)
    [] e.ev = "de" -> DeOk(e)
    [] e.ev = "len" -> LenOk(e)
    [] e.ev = "magic" -> MagicOk(e)
    [] OTHER -> FALSE

Init == l = 1 /\ m = Start(1)
Next == /\ l <= Len(Rec)
        /\ IF AllDone
           THEN /\ IF LineOk(Rec[l]) THEN TRUE
                   ELSE PrintT(<< "MISMATCH", ToJson([line |-> l, event |-> Rec[l]]) >>)
                /\ IF Rec[l].ev = "ser" /\ ~SerExact(Rec[l])
                   THEN PrintT(<< "DRIFT", ToJson([line |-> l, spec_blob |-> m.ser.s.blob, blob |-> Rec[l].blob]) >>)
                   ELSE TRUE
                /\ l' = l + 1
                /\ m' = Start(l + 1)
           ELSE /\ l' = l
                /\ m' = [k \in DOMAIN m |-> MStep(Rec[l], m[k])]

Done == l = Len(Rec) + 1 => PrintT(<< "TRACE-DONE", ToJson([lines |-> l - 1]) >>)
=============================================================================
