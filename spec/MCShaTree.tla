----------------------------- MODULE MCShaTree -----------------------------
(***************************************************************************)
(* C23, bounded part: the native operator  (sha256tree (q . X))  and the   *)
(* ChiaLisp sha256tree program (tools/src/bin/sha256tree-benching.rs, the  *)
(* text is CHIALISP_SHATREE in harness/src/bin/run.rs) are run side by     *)
(* side by the Interp machine, one Step per TLC state, on every tree of    *)
(* the universe, under both cost models.                                   *)
(*                                                                         *)
(* Invariants at completion:                                               *)
(*   Cheaper    native cost < ChiaLisp cost (and both produce the same     *)
(*              hash)                                                      *)
(*   Linear     the ChiaLisp cost obeys                                    *)
(*                 CL(atom of n bytes) = CLAtomA + CLAtomB * n             *)
(*                 CL(pair(l, r))      = CL(l) + CL(r) + CLPairK           *)
(*              and the native cost obeys                                  *)
(*                 NAT(atom of n bytes) = NatW + 590 + perByte * (n + 1)   *)
(*                 NAT(pair(l, r)) = NAT(l) + NAT(r) + 460 - (NatW + 590)  *)
(*              with the constants below (per cost model).  The constants  *)
(*              were read off the model (COST lines of the three probe     *)
(*              trees  (), 0x01, (() . ()) ); engines/lemmas.py re-derives *)
(*              them from the COST lines of every run and compares them    *)
(*              with the ones written here and in ApaShaTree.tla.          *)
(* Because the universe is closed under sub-trees, Linear over the         *)
(* universe is the statement "cost of a pair exceeds the sum of its        *)
(* children's by a constant, cost of an atom is affine in its length".     *)
(* ApaShaTree.tla takes these two recurrences as the definition of the     *)
(* costs of ALL trees and proves the inequality unboundedly.               *)
(***************************************************************************)
EXTENDS Interp, TLC, Json, IOUtils

VARIABLES t, new, cl, nat

Tier == IF "TIER" \in DOMAIN IOEnv THEN IOEnv.TIER ELSE "quick"

---------------------------------------------------------------------------
(* the ChiaLisp program
   (a (q 2 2 (c 2 (c 3 0)))
      (c (q 2 (i (l 5) (q 11 (q . 2) (a 2 (c 2 (c 9 0))) (a 2 (c 2 (c 13 0))))
                       (q 11 (q . 1) 5)) 1) 1))                             *)
At(n) == IF n = 0 THEN Nil ELSE A(<< n >>)
L(s) == ListOf(s)
Recurse(path) == L(<< At(2), At(2), L(<< At(4), At(2), L(<< At(4), At(path), At(0) >>) >>) >>)   \* (a 2 (c 2 (c path 0)))
PairBranch == L(<< At(1), At(11), P(At(1), At(2)), Recurse(9), Recurse(13) >>)                 \* (q 11 (q . 2) .. ..)
AtomBranch == L(<< At(1), At(11), P(At(1), At(1)), At(5) >>)                                   \* (q 11 (q . 1) 5)
Body == L(<< At(1), At(2), L(<< At(3), L(<< At(7), At(5) >>), PairBranch, AtomBranch >>), At(1) >>)
Prog == L(<< At(2),
             L(<< At(1), At(2), At(2), L(<< At(4), At(2), L(<< At(4), At(3), At(0) >>) >>) >>),
             L(<< At(4), Body, At(1) >>) >>)

NativeProg(x) == L(<< At(63), P(At(1), x) >>)          \* (sha256tree (q . X))

---------------------------------------------------------------------------
(* universe: every tree of at most MaxNodes nodes over atoms of the given  *)
(* lengths (the content of an atom cannot influence a cost; it is n bytes  *)
(* of value n mod 256)                                                     *)
Lens == {0, 1, 2, 5, 32}
MaxNodes == IF "MAXNODES" \in DOMAIN IOEnv THEN atoi(IOEnv.MAXNODES) ELSE 7
AtomOfLen(n) == A([i \in 1..n |-> n % 256])

RECURSIVE TreesOf(_)
TreesOf(n) ==
  IF n = 1 THEN {AtomOfLen(k) : k \in Lens}
  ELSE UNION { {P(x, y) : x \in TreesOf(k), y \in TreesOf(n - 1 - k)} : k \in {j \in 1..(n - 2) : j % 2 = 1} }

\* every tree of at most MaxNodes nodes over Lens; the thorough tier adds the trees of MaxNodes + 2 nodes over {0, 1, 32}
BigLens == {0, 1, 32}
RECURSIVE LensWithin(_, _)
LensWithin(x, S) == IF IsAtom(x) THEN Len(x.a) \in S ELSE LensWithin(x.f, S) /\ LensWithin(x.r, S)
Universe ==
  UNION {TreesOf(n) : n \in {j \in 1..MaxNodes : j % 2 = 1}}
    \cup (IF Tier = "thorough" THEN {x \in TreesOf(MaxNodes + 2) : LensWithin(x, BigLens)} ELSE {})

FlagsOf(nw) == IF nw THEN {"ENABLE_SHA256_TREE", "NEW_COST_MODEL"} ELSE {"ENABLE_SHA256_TREE"}

Init ==
  /\ t \in Universe
  /\ new \in BOOLEAN
  /\ cl = Start(Prog, t, << >>, FlagsOf(new), "chia", FreshAl, << >>)
  /\ nat = Start(NativeProg(t), Nil, << >>, FlagsOf(new), "chia", FreshAl, << >>)

Running == cl.status = "run" \/ nat.status = "run"
Adv(s) == IF s.status = "run" THEN Step(s) ELSE s

Next ==
  /\ Running
  /\ cl' = Adv(cl)
  /\ nat' = Adv(nat)
  /\ UNCHANGED << t, new >>

---------------------------------------------------------------------------
(* the constants (TLC integers; every cost here is far below 2^31) *)

\* ChiaLisp program
CLAtomA(nw) == IF nw THEN 3085 ELSE 1638         \* cost on the empty atom
CLAtomB(nw) == IF nw THEN 6 ELSE 2               \* per byte of an atom
CLPairK(nw) == IF nw THEN 3141 ELSE 1412         \* cost(pair) - cost(left) - cost(right)

\* native operator, program (sha256tree (q . X)) : NatW is the cost of the operator
\* dispatch and of the quote around the argument
NatW == 21
NatBase == 270 + 320
NatPair == 460
NatPerByte(nw) == IF nw THEN 6 ELSE 2

RECURSIVE CLRec(_, _)
CLRec(x, nw) == IF IsAtom(x) THEN CLAtomA(nw) + CLAtomB(nw) * Len(x.a)
                ELSE CLRec(x.f, nw) + CLRec(x.r, nw) + CLPairK(nw)
RECURSIVE NatRec(_, _)
NatRec(x, nw) == IF IsAtom(x) THEN NatW + NatBase + NatPerByte(nw) * (Len(x.a) + 1)
                 ELSE NatRec(x.f, nw) + NatRec(x.r, nw) + NatPair - (NatW + NatBase)

RECURSIVE Pairs(_)
Pairs(x) == IF IsAtom(x) THEN 0 ELSE 1 + Pairs(x.f) + Pairs(x.r)
RECURSIVE Bytes(_)
Bytes(x) == IF IsAtom(x) THEN Len(x.a) ELSE Bytes(x.f) + Bytes(x.r)
RECURSIVE AtomLens(_)
AtomLens(x) == IF IsAtom(x) THEN << Len(x.a) >> ELSE AtomLens(x.f) \o AtomLens(x.r)

\* the closed forms that ApaShaTree.tla uses: p pairs, p + 1 atoms, b bytes in total
CLClosed(p, b, nw) == CLAtomA(nw) * (p + 1) + CLAtomB(nw) * b + CLPairK(nw) * p
NatClosed(p, b, nw) == NatW + NatBase + NatPair * p + NatPerByte(nw) * (b + p + 1)

Finished == ~Running

Completes == Finished => cl.status = "ok" /\ nat.status = "ok"

Cheaper == Finished => /\ NLt(nat.cost, cl.cost)
                       /\ Last(nat.val) = Last(cl.val)
                       /\ Last(nat.val) = A(TH(t))

Linear == Finished => /\ cl.cost = N(CLRec(t, new))
                      /\ nat.cost = N(NatRec(t, new))
                      /\ CLRec(t, new) = CLClosed(Pairs(t), Bytes(t), new)
                      /\ NatRec(t, new) = NatClosed(Pairs(t), Bytes(t), new)
                      \* the native operator's own charge is the documented one
                      /\ nat.cost = NAdd(N(NatW), NAdd(N(NatBase), ShaTreeSum(t, NatPerByte(new))))

\* one COST line per finished run (engines/lemmas.py re-derives the constants from them)
Report == Finished =>
  PrintT(<< "COST", ToJson([p |-> Pairs(t), b |-> Bytes(t), lens |-> AtomLens(t), new |-> new,
                            cl |-> IF cl.status = "ok" THEN NToInt(cl.cost) ELSE -1,
                            nat |-> IF nat.status = "ok" THEN NToInt(nat.cost) ELSE -1,
                            steps |-> cl.steps, nsteps |-> nat.steps]) >>)

\* the transcription of the program, for comparison with the serialized program in the repository
ASSUME PrintT(<< "PROG", ToJson(Prog) >>)
=============================================================================
