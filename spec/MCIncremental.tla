--------------------------- MODULE MCIncremental ---------------------------
(* Bounded model of the add/undo histories of the incremental serializer    *)
(* (C19, design level).  TLC explores EVERY history of at most Depth calls  *)
(* over a universe U of trees: Add(U[i]) while not complete, Undo(k) for    *)
(* every k retained additions (restore to the UndoState of any retained     *)
(* add).  Each state is one history (the call sequence is part of it).      *)
(*   invariants : the abstract machine's own laws (snapshots, part =        *)
(*                Partial(ret), done iff no open position, undo is a left   *)
(*                inverse of add, single-sentinel form of `done`), the      *)
(*                one-pass F6a equals its declarative definition, and the   *)
(*                decoder inverts the classic encoder on assembled trees;   *)
(*   emission   : one CASE line per history that is complete or has Depth   *)
(*                calls, replayed into the real Serializer (spec -> impl):  *)
(*                c  calls (i > 0: add U[i], -k: undo k), d done flag after *)
(*                each call, ub for an undo the call whose pre-state bytes  *)
(*                must be visible again, fin classic bytes of the assembled *)
(*                tree (complete histories), cls / clsr the history class   *)
(*                without / with allocator-node reuse.                      *)
(* Universes (env CONF, DEPTH):                                             *)
(*   wide : every tree of <= 5 nodes over the leaves {sentinel, A} - all    *)
(*          sentinel placements incl. two and three sentinels - plus nil    *)
(*   deep : ten trees chosen to hit the known classes and the clean path    *)
(*          (sentinel left/right/inner, content after the sentinel, a       *)
(*          second long atom, a double sentinel, closers)                   *)
(*   ab   : every tree of <= 3 nodes over {sentinel, A, B, nil} plus the    *)
(*          5-node trees with exactly one sentinel over {sentinel, A}       *)
(*   six  : four trees (sentinel right, sentinel inner-left with content    *)
(*          after it, double sentinel, a closer) for the longest histories  *)
EXTENDS Incremental, TLC, Json, IOUtils

Conf == IF "CONF" \in DOMAIN IOEnv THEN IOEnv.CONF ELSE "wide"
DepthS == IF "DEPTH" \in DOMAIN IOEnv THEN IOEnv.DEPTH ELSE "3"
Depth == CASE DepthS = "1" -> 1 [] DepthS = "2" -> 2 [] DepthS = "3" -> 3 [] DepthS = "4" -> 4
           [] DepthS = "5" -> 5 [] DepthS = "6" -> 6 [] DepthS = "7" -> 7 [] OTHER -> 3

S == Atom(<< 83, 69, 78, 84, 73, 78, 69, 76, 33, 33 >>)       \* "SENTINEL!!"
A == Atom(<< 1, 2, 3 >>)                                      \* classic length 4: can be referenced
B == Atom(<< 4, 5, 6, 7 >>)
N == Nil

Pairs(X, Y) == [i \in 1..(Len(X) * Len(Y)) |-> Pair(X[((i - 1) \div Len(Y)) + 1], Y[((i - 1) % Len(Y)) + 1])]
RECURSIVE Filter(_, _)
Filter(seq, n) ==      \* the trees of seq with exactly n sentinels
  IF seq = << >> THEN << >>
  ELSE (IF Count(seq[1], S) = n THEN << seq[1] >> ELSE << >>) \o Filter(Tail(seq), n)

L2 == << S, A >>
T3 == Pairs(L2, L2)
T5 == Pairs(T3, L2) \o Pairs(L2, T3)
L4 == << S, A, B, N >>

U == CASE Conf = "wide" -> L2 \o T3 \o T5 \o << N >>
       [] Conf = "deep" -> << Pair(A, S), Pair(S, A), Pair(Pair(A, S), A), Pair(Pair(S, A), B), Pair(A, Pair(S, B)),
                              Pair(S, S), A, N, Pair(A, B), S >>
       [] Conf = "ab"   -> L4 \o Pairs(L4, L4) \o Filter(T5, 1)
       [] Conf = "six"  -> << Pair(A, S), Pair(Pair(S, A), A), Pair(S, S), A >>
       [] OTHER -> L2

ASSUME PrintT(<< "UNIVERSE", ToJson([universe |-> U, sent |-> S, conf |-> Conf, depth |-> Depth]) >>)

\* decoder vectors from the repository's tests (de_br.rs, incremental.rs)
Foobar == << 102, 111, 111, 98, 97, 114 >>
ASSUME DecodeBR(<< 255, 134 >> \o Foobar \o << 254, 1 >>).tree = Pair(Atom(Foobar), Pair(Atom(Foobar), Nil))
ASSUME DecodeBR(<< 255, 254, 1, 0 >>).tree = Pair(Nil, Atom(<< 0 >>))
ASSUME LET l4 == Pair(Atom(<<1>>), Pair(Atom(<<2>>), Pair(Atom(<<3>>), Pair(Atom(<<4>>), Nil))))
       IN DecodeBR(<< 255, 255, 1, 255, 2, 255, 3, 255, 4, 128, 254, 2 >>).tree = Pair(l4, l4)
ASSUME ~DecodeBR(<< 255, 1, 254, 6 >>).ok          \* path into an atom
ASSUME ~DecodeBR(<< 255, 1 >>).ok                  \* truncated
ASSUME DecodeBR(<< 255, 1, 254, 0 >>).tree = Pair(Atom(<<1>>), Nil)     \* zero path is nil

VARIABLES s,    \* abstract machine state (Incremental.tla)
          h,    \* the calls: i > 0 add U[i], -k undo k
          dn,   \* done flag (0/1) after each call
          ub    \* for an undo: the call before which the restored bytes were visible; else 0

Init == s = InitState(S) /\ h = << >> /\ dn = << >> /\ ub = << >>

AddCall(i) ==
  /\ CanAdd(s) /\ Len(h) < Depth
  /\ s' = AddS(s, U[i], Len(h) + 1)          \* obs token: "the bytes visible before call Len(h)+1"
  /\ h' = Append(h, i)
  /\ dn' = Append(dn, IF s'.done THEN 1 ELSE 0)
  /\ ub' = Append(ub, 0)
  /\ Assert(Core(UndoS(s', 1)) = Core(s), "undo is not a left inverse of add")

UndoCall(k) ==
  /\ CanUndo(s, k) /\ Len(h) < Depth
  /\ s' = UndoS(s, k)
  /\ h' = Append(h, 0 - k)
  /\ dn' = Append(dn, 0)
  /\ ub' = Append(ub, Snap(s, k).obs)

Next == (\E i \in 1..Len(U) : AddCall(i)) \/ (\E k \in 1..Depth : UndoCall(k))

Emit(r) == PrintT(<< "CASE", ToJson(r) >>)

Laws ==
  /\ MachineInv(s)
  /\ DoneIffLastClosed(s)
  /\ s.undone # << >> => F6aFast(s) = F6a(s)
  /\ s.calls = Len(h)
  /\ \A j \in 1..Len(h) : ub[j] # 0 => (ub[j] < j /\ h[ub[j]] > 0)        \* an undo restores the pre-state of an add
  /\ IF s.done \/ Len(h) = Depth
     THEN \E cls \in {Class(s, FALSE)} :
          \E clsr \in {IF cls = "none" /\ F6c(s, TRUE) THEN "F6c" ELSE cls} :
            IF s.done
            THEN \E enc \in {Encode(s.part)} : \E d \in {DecodeBR(enc)} :
                 /\ d.ok /\ TEq(d.tree, s.part) /\ d.used = Len(enc)      \* the decoder inverts the classic encoder
                 /\ Emit([c |-> h, d |-> dn, ub |-> ub, fin |-> enc, cls |-> cls, clsr |-> clsr])
            ELSE Emit([c |-> h, d |-> dn, ub |-> ub, cls |-> cls, clsr |-> clsr])
     ELSE TRUE
=============================================================================
