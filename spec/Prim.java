// The single Java module override of the specification: SHA-256 through the JDK.
// Compile: javac -cp /opt/veriftools/tla/tla2tools.jar Prim.java
import tlc2.value.impl.*;
import java.security.MessageDigest;

public class Prim {
  public static Value SHA256(final Value v) throws Exception {
    TupleValue t = (TupleValue) v.toTuple();
    byte[] b = new byte[t.elems.length];
    for (int i = 0; i < b.length; i++) b[i] = (byte) ((IntValue) t.elems[i]).val;
    byte[] d = MessageDigest.getInstance("SHA-256").digest(b);
    Value[] out = new Value[32];
    for (int i = 0; i < 32; i++) out[i] = IntValue.gen(d[i] & 0xff);
    return new TupleValue(out);
  }
}
