CONSTANT Restricted = {"CANONICAL_INTS"}
INIT Init
NEXT Next
INVARIANT RestrictionOnlyRemoves
CHECK_DEADLOCK FALSE
