---------------------------- MODULE TraceVarint ----------------------------
(* Trace validation (implementation -> specification) for C21: every event   *)
(* recorded from write_varint / read_varint must be what Varint.tla assigns  *)
(* to the same input.  One TLC state per trace line; a line that disagrees   *)
(* prints a MISMATCH record and validation continues with the next line.     *)
EXTENDS Varint, TLC, Json, IOUtils

Rec == ndJsonDeserialize(IOEnv.TRACE)

VARIABLE l

Has(e, f) == f \in DOMAIN e

EncOk(e) ==
  LET v == Z(e.neg, e.mag)
  IN  /\ ~Has(e, "panic")
      /\ InRange(v)
      /\ e.out = Encode(v)

DecOk(e) ==
  LET d == Decode(e.b, e.strict)
  IN  /\ ~Has(e, "panic")
      /\ e.ok = d.ok
      /\ d.ok => /\ Z(e.neg, e.mag) = d.val
                 /\ e.used = d.used

LineOk(e) == IF e.ev = "enc" THEN EncOk(e) ELSE DecOk(e)

Init == l = 1
Next == /\ l <= Len(Rec)
        /\ IF LineOk(Rec[l]) THEN TRUE
           ELSE PrintT(<< "MISMATCH", ToJson([line |-> l, event |-> Rec[l]]) >>)
        /\ l' = l + 1

Done == l = Len(Rec) + 1 => PrintT(<< "TRACE-DONE", ToJson([lines |-> l - 1]) >>)
=============================================================================
