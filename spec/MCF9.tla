-------------------------------- MODULE MCF9 --------------------------------
(* Design-level reproduction of finding F9 (C07): with CANONICAL_INTS but     *)
(* without NO_UNKNOWN_OPS, a softfork guard whose EXTENSION argument is a      *)
(* non-canonical integer is not entered (lenient mode treats the rejected      *)
(* argument as an unknown guard: nil at the declared cost), while without the  *)
(* flag the guard is entered and its program may fail.  So a restriction flag  *)
(* turns a failure into a success.  Two Interp machines (F = {} and            *)
(* F = {CANONICAL_INTS}) run the same program in lockstep; the invariant       *)
(* RestrictionOnlyRemoves is EXPECTED TO BE VIOLATED by TLC (cfg MCF9.cfg),    *)
(* and holds once NO_UNKNOWN_OPS accompanies the flag (cfg MCF9_strict.cfg).   *)
EXTENDS Interp, TLC

CONSTANT Restricted          \* the restriction flag set under test

VARIABLES a, b, p
vars == << a, b, p >>

Q(x) == P(A(<< 1 >>), x)
Guard(cost, ext, prog) == ListOf(<< A(<< 36 >>), Q(A(cost)), Q(A(ext)), Q(prog), Q(Nil) >>)
Exts == { << >>, << 1 >>, << 0, 1 >>, << 0 >> }
Progs == { ListOf(<< A(<< 5 >>), Q(A(<< 7 >>)) >>),     \* (f (q . 7)): fails
           Q(A(<< 9 >>)) }                                \* (q . 9): succeeds, cost 20
Costs == { << 0, 160 >>, << 0, 161 >> }                      \* 140 + 20 and off by one
Programs == { Guard(c, e, g) : c \in Costs, e \in Exts, g \in Progs }

Init == /\ p \in Programs
        /\ a = Start(p, Nil, << >>, {}, "chia", FreshAl, << >>)
        /\ b = Start(p, Nil, << >>, Restricted, "chia", FreshAl, << >>)
Next == /\ (a.status = "run" \/ b.status = "run")
        /\ a' = IF a.status = "run" THEN Step(a) ELSE a
        /\ b' = IF b.status = "run" THEN Step(b) ELSE b
        /\ UNCHANGED p

Final == a.status # "run" /\ b.status # "run"
RestrictionOnlyRemoves ==
  Final => (b.status = "ok" => (a.status = "ok" /\ a.cost = b.cost /\ Last(a.val) = Last(b.val)))
=============================================================================
