INIT Init
NEXT Next
INVARIANT Refine
INVARIANT Bounded
INVARIANT Final
CHECK_DEADLOCK FALSE
