------------------------------ MODULE BigInt ------------------------------
(***************************************************************************)
(* Arbitrary-precision naturals and integers in plain TLA+.                *)
(*                                                                         *)
(* TLC's integers are 32-bit, while clvm_rs works with u64 costs, 2^96     *)
(* products in the unknown-operator rule, 56-bit varints, 2^34 length      *)
(* prefixes and unbounded CLVM integers.  Every "wide" number of the       *)
(* specification is therefore a digit sequence:                            *)
(*                                                                         *)
(*   Nat  N : little-endian base-256 digits, normalised (no high zero      *)
(*            digit); zero is << >>.                                       *)
(*   Int  Z : << neg, mag >> with neg \in BOOLEAN, mag a Nat; zero is      *)
(*            << FALSE, <<>> >>.                                           *)
(*                                                                         *)
(* Nothing here is overridden by Java.  The module is self-checked by      *)
(* MCBigInt (division law, two's complement round trip, shifts).           *)
(***************************************************************************)
EXTENDS Integers, Sequences

Max2(a, b) == IF a >= b THEN a ELSE b
Min2(a, b) == IF a <= b THEN a ELSE b

---------------------------------------------------------------------------
(* Naturals *)

Dig(a, i) == IF i <= Len(a) THEN a[i] ELSE 0

RECURSIVE LastNZ(_, _)
LastNZ(d, i) == IF i = 0 THEN 0 ELSE IF d[i] # 0 THEN i ELSE LastNZ(d, i - 1)
NNorm(d) == LET k == LastNZ(d, Len(d)) IN IF k = Len(d) THEN d ELSE SubSeq(d, 1, k)

NZero == << >>
NIsZero(a) == a = << >>

RECURSIVE N(_)
N(n) == IF n = 0 THEN << >> ELSE << n % 256 >> \o N(n \div 256)

\* value of a Nat that is known to be below 2^31
NFitsInt(a) == Len(a) <= 3 \/ (Len(a) = 4 /\ a[4] < 128)
RECURSIVE NToIntRec(_, _)
NToIntRec(a, i) == IF i > Len(a) THEN 0 ELSE a[i] + 256 * NToIntRec(a, i + 1)
NToInt(a) == NToIntRec(a, 1)

RECURSIVE NCmpRec(_, _, _)
NCmpRec(a, b, i) ==
  IF i = 0 THEN 0
  ELSE IF a[i] < b[i] THEN -1
  ELSE IF a[i] > b[i] THEN 1
  ELSE NCmpRec(a, b, i - 1)
NCmp(a, b) ==
  IF Len(a) < Len(b) THEN -1
  ELSE IF Len(a) > Len(b) THEN 1
  ELSE NCmpRec(a, b, Len(a))
NLt(a, b) == NCmp(a, b) < 0
NLe(a, b) == NCmp(a, b) <= 0
NGt(a, b) == NCmp(a, b) > 0
NGe(a, b) == NCmp(a, b) >= 0

RECURSIVE NAddRec(_, _, _, _, _)
NAddRec(a, b, n, i, c) ==
  IF i > n THEN (IF c = 0 THEN << >> ELSE << c >>)
  ELSE LET s == Dig(a, i) + Dig(b, i) + c
       IN  << s % 256 >> \o NAddRec(a, b, n, i + 1, s \div 256)
NAdd(a, b) ==
  IF b = << >> THEN a ELSE IF a = << >> THEN b
  ELSE NAddRec(a, b, Max2(Len(a), Len(b)), 1, 0)

\* a - b, requires a >= b
RECURSIVE NSubRec(_, _, _, _)
NSubRec(a, b, i, br) ==
  IF i > Len(a) THEN << >>
  ELSE LET s == a[i] - Dig(b, i) - br
       IN  IF s < 0 THEN << s + 256 >> \o NSubRec(a, b, i + 1, 1)
                    ELSE << s >> \o NSubRec(a, b, i + 1, 0)
NSub(a, b) == IF b = << >> THEN a ELSE NNorm(NSubRec(a, b, 1, 0))

\* a * m for a single digit 0 <= m < 256 (also used with m up to 2^15)
RECURSIVE NMulDigRec(_, _, _, _)
NMulDigRec(a, m, i, c) ==
  IF i > Len(a) THEN N(c)
  ELSE LET p == a[i] * m + c
       IN  << p % 256 >> \o NMulDigRec(a, m, i + 1, p \div 256)
NMulDig(a, m) == IF m = 0 \/ a = << >> THEN << >> ELSE NMulDigRec(a, m, 1, 0)

NShiftDigits(a, k) == IF a = << >> \/ k = 0 THEN a ELSE [i \in 1..k |-> 0] \o a

RECURSIVE NMulRec(_, _, _)
NMulRec(a, b, j) ==
  IF j > Len(b) THEN << >>
  ELSE NAdd(NMulDig(a, b[j]), NShiftDigits(NMulRec(a, b, j + 1), 1))
NMul(a, b) ==
  IF a = << >> \/ b = << >> THEN << >>
  ELSE IF Len(a) >= Len(b) THEN NMulRec(a, b, 1) ELSE NMulRec(b, a, 1)

NMulI(a, n) == NMul(a, N(n))
NAddI(a, n) == NAdd(a, N(n))

\* largest q in lo..hi with q*b <= r   (lo is known to satisfy it)
RECURSIVE QSearch(_, _, _, _)
QSearch(r, b, lo, hi) ==
  IF lo = hi THEN lo
  ELSE LET mid == (lo + hi + 1) \div 2
       IN  IF NLe(NMulDig(b, mid), r) THEN QSearch(r, b, mid, hi)
                                      ELSE QSearch(r, b, lo, mid - 1)

\* long division, most significant digit first; returns << q, r >>; b # 0
RECURSIVE NDivRec(_, _, _, _)
NDivRec(a, b, i, r) ==
  IF i = 0 THEN << << >>, r >>
  ELSE LET r1  == NNorm(<< a[i] >> \o r)
           qd  == IF NLt(r1, b) THEN 0 ELSE QSearch(r1, b, 1, 255)
           r2  == IF qd = 0 THEN r1 ELSE NSub(r1, NMulDig(b, qd))
           low == NDivRec(a, b, i - 1, r2)
       IN  << low[1] \o << qd >>, low[2] >>
NDivMod(a, b) ==
  IF NLt(a, b) THEN << << >>, a >>
  ELSE LET qr == NDivRec(a, b, Len(a), << >>) IN << NNorm(qr[1]), qr[2] >>
NDiv(a, b) == NDivMod(a, b)[1]
NMod(a, b) == NDivMod(a, b)[2]

\* division by a small integer 1 <= m < 2^15: << q, r >>, r an Int
RECURSIVE NDivSmallRec(_, _, _, _)
NDivSmallRec(a, m, i, r) ==
  IF i = 0 THEN << << >>, r >>
  ELSE LET cur == r * 256 + a[i]
           low == NDivSmallRec(a, m, i - 1, cur % m)
       IN  << low[1] \o << cur \div m >>, low[2] >>
NDivSmall(a, m) == LET qr == NDivSmallRec(a, m, Len(a), 0) IN << NNorm(qr[1]), qr[2] >>

Pow2(k) == CASE k = 0 -> 1 [] k = 1 -> 2 [] k = 2 -> 4 [] k = 3 -> 8
             [] k = 4 -> 16 [] k = 5 -> 32 [] k = 6 -> 64 [] k = 7 -> 128 [] k = 8 -> 256

\* a * 2^k and floor(a / 2^k), k any non-negative Int
NShl(a, k) == NShiftDigits(NMulDig(a, Pow2(k % 8)), k \div 8)
NShr(a, k) ==
  LET d == k \div 8
  IN  IF d >= Len(a) THEN << >>
      ELSE NDivSmall(SubSeq(a, d + 1, Len(a)), Pow2(k % 8))[1]

\* number of significant bits
RECURSIVE BitsOfDigit(_)
BitsOfDigit(d) == IF d = 0 THEN 0 ELSE 1 + BitsOfDigit(d \div 2)
NBits(a) == IF a = << >> THEN 0 ELSE 8 * (Len(a) - 1) + BitsOfDigit(a[Len(a)])
NBit(a, k) == (Dig(a, k \div 8 + 1) \div Pow2(k % 8)) % 2     \* bit k (0 = least significant)

\* unsigned big-endian bytes <-> Nat
Rev(s) == [i \in 1..Len(s) |-> s[Len(s) + 1 - i]]
NFromBE(bytes) == NNorm(Rev(bytes))
NToBE(a) == Rev(a)
\* little-endian digits padded to exactly n digits (requires Len(a) <= n)
NPad(a, n) == a \o [i \in 1..(n - Len(a)) |-> 0]

U64Max == << 255, 255, 255, 255, 255, 255, 255, 255 >>
U32Max == << 255, 255, 255, 255 >>
NFitsU64(a) == Len(a) <= 8
NFitsU32(a) == Len(a) <= 4

---------------------------------------------------------------------------
(* Integers *)

Z(neg, mag) == IF mag = << >> THEN << FALSE, << >> >> ELSE << neg, mag >>
ZZero == << FALSE, << >> >>
ZFromNat(a) == << FALSE, a >>
ZI(n) == IF n >= 0 THEN << FALSE, N(n) >> ELSE << TRUE, N(0 - n) >>
ZNegP(z) == z[1]
ZMag(z) == z[2]
ZIsZero(z) == z[2] = << >>
ZNeg(z) == Z(~z[1], z[2])
ZSign(z) == IF z[2] = << >> THEN 0 ELSE IF z[1] THEN -1 ELSE 1

ZAdd(x, y) ==
  IF x[1] = y[1] THEN Z(x[1], NAdd(x[2], y[2]))
  ELSE LET c == NCmp(x[2], y[2])
       IN  IF c = 0 THEN ZZero
           ELSE IF c > 0 THEN Z(x[1], NSub(x[2], y[2]))
           ELSE Z(y[1], NSub(y[2], x[2]))
ZSub(x, y) == ZAdd(x, ZNeg(y))
ZMul(x, y) == Z(x[1] # y[1], NMul(x[2], y[2]))
ZCmp(x, y) ==
  IF x[1] # y[1] THEN (IF x[1] THEN -1 ELSE 1)
  ELSE IF x[1] THEN NCmp(y[2], x[2]) ELSE NCmp(x[2], y[2])

\* floor division: x = q*y + r, r has the sign of y, |r| < |y|;  y # 0
ZDivModFloor(x, y) ==
  LET qr == NDivMod(x[2], y[2])
      q0 == qr[1]
      r0 == qr[2]
  IN  IF x[1] = y[1] THEN << Z(FALSE, q0), Z(y[1], r0) >>
      ELSE IF r0 = << >> THEN << Z(TRUE, q0), ZZero >>
      ELSE << Z(TRUE, NAddI(q0, 1)), Z(y[1], NSub(y[2], r0)) >>

\* truncating division (used only to state the difference with floor division)
ZDivTrunc(x, y) == Z(x[1] # y[1], NDiv(x[2], y[2]))

\* Limbs: number of magnitude bytes, bits().div_ceil(8)
ZLimbs(z) == Len(z[2])

---------------------------------------------------------------------------
(* Two's complement, CLVM atoms (signed big-endian) *)

InvDigits(d) == [i \in 1..Len(d) |-> 255 - d[i]]
\* (256^n - mag) as exactly n little-endian digits, for 0 < mag <= 256^n
TwosComp(mag, n) ==
  LET s == NAddRec(InvDigits(NPad(mag, n)), << 1 >>, n, 1, 0)
  IN  SubSeq(s, 1, n)

\* value of a CLVM atom (signed, big-endian, any redundant leading bytes)
ZFromAtom(bytes) ==
  IF bytes = << >> THEN ZZero
  ELSE IF bytes[1] < 128 THEN Z(FALSE, NFromBE(bytes))
  ELSE Z(TRUE, NNorm(TwosComp(NNorm(Rev(bytes)), Len(bytes))))
\* remark: for a negative atom the magnitude is 256^n - U where U is the
\* unsigned value; TwosComp(U, n) computes exactly that (U > 0 here).

\* minimal signed big-endian encoding
NegWidth(mag) ==
  LET n == Len(mag)
  IN  IF mag[n] < 128 THEN n
      ELSE IF mag[n] = 128 /\ LastNZ(mag, n - 1) = 0 THEN n
      ELSE n + 1
ZToAtom(z) ==
  IF z[2] = << >> THEN << >>
  ELSE IF ~z[1] THEN (IF z[2][Len(z[2])] >= 128 THEN << 0 >> \o Rev(z[2]) ELSE Rev(z[2]))
  ELSE LET n == NegWidth(z[2]) IN Rev(TwosComp(z[2], n))

\* n-digit two's complement of any integer that fits
ZToTC(z, n) == IF z[1] THEN TwosComp(z[2], n) ELSE NPad(z[2], n)
ZFromTC(d) ==
  IF d = << >> THEN ZZero
  ELSE IF d[Len(d)] < 128 THEN Z(FALSE, NNorm(d))
  ELSE Z(TRUE, NNorm(TwosComp(NNorm(d), Len(d))))

RECURSIVE AndByte(_, _)
AndByte(x, y) == IF x = 0 \/ y = 0 THEN 0
                 ELSE (x % 2) * (y % 2) + 2 * AndByte(x \div 2, y \div 2)
OrByte(x, y) == x + y - AndByte(x, y)
XorByte(x, y) == x + y - 2 * AndByte(x, y)

ZBitWidth(x, y) == Max2(Len(x[2]), Len(y[2])) + 1
ZAnd(x, y) == LET n == ZBitWidth(x, y)  a == ZToTC(x, n)  b == ZToTC(y, n)
              IN  ZFromTC([i \in 1..n |-> AndByte(a[i], b[i])])
ZOr(x, y)  == LET n == ZBitWidth(x, y)  a == ZToTC(x, n)  b == ZToTC(y, n)
              IN  ZFromTC([i \in 1..n |-> OrByte(a[i], b[i])])
ZXor(x, y) == LET n == ZBitWidth(x, y)  a == ZToTC(x, n)  b == ZToTC(y, n)
              IN  ZFromTC([i \in 1..n |-> XorByte(a[i], b[i])])
ZNot(x) == ZSub(ZI(-1), x)           \* ~x = -x - 1

\* arithmetic shifts: x * 2^k, floor(x / 2^k)
ZShl(x, k) == Z(x[1], NShl(x[2], k))
ZShrFloor(x, k) ==
  IF ~x[1] THEN Z(FALSE, NShr(x[2], k))
  ELSE \* -ceil(m / 2^k) = -(floor((m - 1) / 2^k) + 1)
       Z(TRUE, NAddI(NShr(NSub(x[2], << 1 >>), k), 1))

\* base^e mod m with the sign convention of floor-mod; e >= 0, m # 0
RECURSIVE NPowModRec(_, _, _, _, _)
NPowModRec(b, e, m, k, acc) ==
  \* processes exponent bits k-1 .. 0 (most significant first)
  IF k = 0 THEN acc
  ELSE LET sq == NMod(NMul(acc, acc), m)
           nx == IF NBit(e, k - 1) = 1 THEN NMod(NMul(sq, b), m) ELSE sq
       IN  NPowModRec(b, e, m, k - 1, nx)
ZModPow(base, e, m) ==
  LET mm == m[2]
      b0 == ZDivModFloor(base, Z(FALSE, mm))[2][2]        \* base mod |m|, in 0..|m|-1
      r0 == NPowModRec(b0, e[2], mm, NBits(e[2]), NMod(<< 1 >>, mm))
  IN  \* r0 = base^e mod |m| in 0..|m|-1 ; floor-mod by negative m shifts it into (m, 0]
      IF ~m[1] \/ r0 = << >> THEN Z(FALSE, r0) ELSE Z(TRUE, NSub(mm, r0))
=============================================================================
