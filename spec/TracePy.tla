------------------------------ MODULE TracePy ------------------------------
(***************************************************************************)
(* Trace validation of the Python wheel's function-style API (engine `py`).*)
(* Every line is one input with what the Rust core answered (`rust`,       *)
(* written by harness bin `pyref`) and what the wheel answered (`py`,      *)
(* written by pyharness/driver.py).  The line is checked for py = rust on  *)
(* the observables the property names and, where a specification module    *)
(* exists, for rust = specification.  A line that fails prints MISMATCH    *)
(* with the names of the failed checks; validation continues.              *)
(*                                                                         *)
(*  C26  deser    fn (deser_legacy | deser_backrefs | deser_2026 |          *)
(*                deser_auto), blob, max, strict; records {ok, tree,        *)
(*                ser_legacy, ser_backrefs, ser_2026} | {ok FALSE, msg};     *)
(*                the py tree is read through LazyNode.atom / .pair         *)
(*       len      serialized_length(blob)                                   *)
(*       triples  deserialize_as_tree(blob, hashes)                         *)
(*  C27  conv     src tree, wrapper kind, blob = ser_2026(clvm_tree_to_     *)
(*                lazy_node(wrapped src)), res = the tree read back         *)
(*  C28  pyser    tree, rust = node_to_bytes, py = the pure-Python           *)
(*                serializers and tree hashers                              *)
(*       pydeser  blob, rust = node_from_stream / parse_triples, py = the    *)
(*                pure-Python stream decoders                               *)
(*       int      int_to_bytes / int_from_bytes                             *)
(*       curry    module, arguments: curry, curry_hash, uncurry             *)
(*       uncurry  uncurry of an arbitrary tree                              *)
(*                                                                         *)
(* Check names: "py=rust..." and "accept:/tree:/bytes:..." compare the two  *)
(* implementations, "spec:..." compare Rust with the specification.         *)
(***************************************************************************)
EXTENDS Sexp, Prim, TLC, Json, IOUtils

SC  == INSTANCE SerClassic
S26 == INSTANCE Ser2026
BR  == INSTANCE SerBackrefs

\* The tree hash: TreeHash!TH, restated here because the SHA-256 module override (Prim.class) is
\* bound to operators reached through EXTENDS, not through a named INSTANCE.
RECURSIVE TH(_)
TH(t) == IF IsAtom(t) THEN SHA256(<< 1 >> \o t.a) ELSE SHA256(<< 2 >> \o TH(t.f) \o TH(t.r))

Rec == ndJsonDeserialize(IOEnv.TRACE)

VARIABLE l

Has(e, f) == f \in DOMAIN e
UMax == << 255, 255, 255, 255, 255, 255, 255, 255 >>
MaxSpecBytes == 20000        \* blobs longer than this are compared py = rust only

RECURSIVE BadKeys(_, _, _, _)
BadKeys(pre, keys, rec, want) ==      \* the keys whose value in rec differs from want, as check names
  IF keys = << >> THEN << >>
  ELSE (IF rec[Head(keys)] # want THEN << pre \o Head(keys) >> ELSE << >>) \o BadKeys(pre, Tail(keys), rec, want)

---------------------------------------------------------------------------
(* decoders of the specification as functions: [ok, tree, used]            *)

NoDec == [ok |-> FALSE, tree |-> Nil, used |-> 0]

Classic(b) ==
  LET r == SC!ParseAt(b, 0)
  IN  IF r.ok THEN [ok |-> TRUE, tree |-> SC!NodeTree(r.node), used |-> r.node.e, node |-> r.node] ELSE NoDec

Backrefs(b) ==
  LET r == BR!DecodeBR(b)
  IN  IF r.st = "ok" THEN [ok |-> TRUE, tree |-> r.t, used |-> r.pos] ELSE NoDec

D2026(b, max, strict) ==
  LET r == S26!DecR([b |-> b, max |-> max, strict |-> strict])
  IN  IF r.ok THEN [ok |-> TRUE, tree |-> r.tree, used |-> r.used] ELSE NoDec

Auto(b, max, strict) == IF S26!HasMagic(b) THEN D2026(b, max, strict) ELSE Backrefs(b)

SpecDeser(fn, b, max, strict) ==
  CASE fn = "deser_legacy" -> Classic(b)
    [] fn = "deser_backrefs" -> Backrefs(b)
    [] fn = "deser_2026" -> D2026(b, max, strict)
    [] fn = "deser_auto" -> Auto(b, max, strict)

---------------------------------------------------------------------------
(* C26 *)

IsBytes(x) == x # << 999 >>             \* a byte array; << 999 >> marks "the call raised an error"

NormDeser(r) ==
  IF Has(r, "panic") \/ Has(r, "pyexc") \/ Has(r, "views") THEN [bad |-> r]
  ELSE IF r.ok THEN [ok |-> TRUE, tree |-> TreeOf(r.tree), ser_legacy |-> r.ser_legacy,
                     ser_backrefs |-> r.ser_backrefs, ser_2026 |-> r.ser_2026]
  ELSE [ok |-> FALSE, msg |-> r.msg]

\* the wheel (p) against the Rust core (r); `w` names the entry point in the failure ("" = the native function,
\* ":serde.py" = the wrappers clvm_rs.serde.deserialize / serialize called with the same options)
PyVsRust(r, p, w) ==
  (IF Has(p, "bad") THEN << "py:exception" \o w >> ELSE << >>)
  \o (IF ~Has(r, "bad") /\ ~Has(p, "bad") /\ r.ok # p.ok THEN << "py=rust:accept" \o w >> ELSE << >>)
  \o (IF ~Has(r, "bad") /\ ~Has(p, "bad") /\ r.ok /\ p.ok /\ r.tree # p.tree THEN << "py=rust:tree" \o w >> ELSE << >>)
  \o (IF ~Has(r, "bad") /\ ~Has(p, "bad") /\ r.ok /\ p.ok /\ r.ser_legacy # p.ser_legacy THEN << "py=rust:ser_legacy" \o w >> ELSE << >>)
  \o (IF ~Has(r, "bad") /\ ~Has(p, "bad") /\ r.ok /\ p.ok /\ r.ser_backrefs # p.ser_backrefs THEN << "py=rust:ser_backrefs" \o w >> ELSE << >>)
  \o (IF ~Has(r, "bad") /\ ~Has(p, "bad") /\ r.ok /\ p.ok /\ r.ser_2026 # p.ser_2026 THEN << "py=rust:ser_2026" \o w >> ELSE << >>)
  \o (IF ~Has(r, "bad") /\ ~Has(p, "bad") /\ ~r.ok /\ ~p.ok /\ r.msg # p.msg THEN << "py=rust:msg" \o w >> ELSE << >>)

DeserFails(e) ==
  LET r == NormDeser(e.rust)
      p == NormDeser(e.py)
      small == Len(e.blob) <= MaxSpecBytes
      d == SpecDeser(e.fn, e.blob, e.max, e.strict)
      t == r.tree
  IN  (IF Has(r, "bad") THEN << "rust:panic" >> ELSE << >>)
      \o PyVsRust(r, p, "")
      \o (IF Has(e, "pyw") THEN PyVsRust(r, NormDeser(e.pyw), ":serde.py") ELSE << >>)
      \o (IF Has(r, "bad") \/ ~small THEN << >>
          ELSE (IF d.ok # r.ok THEN << "spec:accept" >> ELSE << >>)
            \o (IF d.ok /\ r.ok /\ d.tree # t THEN << "spec:tree" >> ELSE << >>)
            \o (IF r.ok /\ IsBytes(r.ser_legacy) /\ r.ser_legacy # SC!Encode(t) THEN << "spec:ser_legacy" >> ELSE << >>)
            \o (IF r.ok /\ IsBytes(r.ser_2026) /\
                   D2026(r.ser_2026, UMax, TRUE) # [ok |-> TRUE, tree |-> t, used |-> Len(r.ser_2026)]
                THEN << "spec:ser_2026" >> ELSE << >>)
            \o (IF r.ok /\ IsBytes(r.ser_backrefs) /\ IsBytes(r.ser_legacy) /\
                   ~(LET b == Backrefs(r.ser_backrefs)
                     IN  b.ok /\ b.tree = t /\ b.used = Len(r.ser_backrefs) /\ Len(r.ser_backrefs) <= Len(r.ser_legacy))
                THEN << "spec:ser_backrefs" >> ELSE << >>))

LenFails(e) ==
  LET d == Classic(e.blob) IN
  (IF e.rust # e.py THEN << "py=rust:len" >> ELSE << >>)
  \o (IF d.ok /\ ~(e.rust.ok /\ e.rust.len = d.used) THEN << "spec:len" >> ELSE << >>)

TriplesFails(e) ==
  LET d == Classic(e.blob)
      tr == IF d.ok THEN SC!Triples(d.node) ELSE << >>
  IN  (IF e.rust # e.py THEN << "py=rust:triples" >> ELSE << >>)
      \o (IF d.ok # e.rust.ok THEN << "spec:accept" >> ELSE << >>)
      \o (IF d.ok /\ e.rust.ok /\ e.rust.triples # [i \in 1..Len(tr) |-> << tr[i].s, tr[i].e, tr[i].x >>]
          THEN << "spec:triples" >> ELSE << >>)

---------------------------------------------------------------------------
(* C27 *)

ConvFails(e) ==
  IF ~e.ok THEN << "exception" >>
  ELSE LET src == TreeOf(e.src) IN
       (IF TreeOf(e.res) # src THEN << "res" >> ELSE << >>)
       \o (IF Len(e.blob) <= MaxSpecBytes /\ D2026(e.blob, UMax, TRUE) # [ok |-> TRUE, tree |-> src, used |-> Len(e.blob)]
           THEN << "blob" >> ELSE << >>)

---------------------------------------------------------------------------
(* C28 *)

SerKeys == << "sexp_to_bytes", "program_bytes", "program_stream", "clvmtree_bytes", "parsed_bytes" >>
HashKeys == << "tree_hash", "sha256_treehash" >>

PySerFails(e) ==
  LET t == TreeOf(e.tree)
      h == TH(t)
  IN  BadKeys("bytes:", SerKeys, e.py, e.rust)
      \o BadKeys("hash:", HashKeys, e.py, h)
      \o (IF e.rust # SC!Encode(t) THEN << "spec:encode" >> ELSE << >>)
      \o (IF e.rust_hash # h THEN << "spec:hash" >> ELSE << >>)

\* one Python stream decoder against the Rust classic decoder: accept set, tree, bytes consumed
StreamCmp(name, p, r) ==
  IF Has(p, "pyexc") THEN << "exception:" \o name >>
  ELSE IF Has(r, "panic") THEN << "rust:panic" >>
  ELSE IF p.ok # r.ok THEN << "accept:" \o name >>
  ELSE IF ~p.ok THEN << >>
  ELSE (IF TreeOf(p.tree) # TreeOf(r.tree) THEN << "tree:" \o name >> ELSE << >>)
       \o (IF Has(p, "used") /\ p.used # r.used THEN << "used:" \o name >> ELSE << >>)

TuplesCmp(name, p, r) ==
  IF Has(p, "pyexc") THEN << "exception:" \o name >>
  ELSE IF Has(r, "panic") THEN << "rust:panic" >>
  ELSE IF p.ok # r.ok THEN << "accept:" \o name >>
  ELSE IF ~p.ok THEN << >>
  ELSE (IF p.triples # r.triples THEN << "triples:" \o name >> ELSE << >>)
       \o (IF p.hashes # r.hashes THEN << "hashes:" \o name >> ELSE << >>)

CTreeCmp(name, p, rt, r, blob) ==
  IF Has(p, "pyexc") THEN << "exception:" \o name >>
  ELSE IF Has(rt, "panic") \/ Has(r, "panic") THEN << "rust:panic" >>
  ELSE IF p.ok # rt.ok THEN << "accept:" \o name >>
  ELSE IF ~p.ok THEN << >>
  ELSE (IF r.ok /\ TreeOf(p.tree) # TreeOf(r.tree) THEN << "tree:" \o name >> ELSE << >>)
       \o (IF r.ok /\ p.bytes # SubSeq(blob, 1, r.used) THEN << "bytes:" \o name >> ELSE << >>)

PyDeserFails(e) ==
  LET d == Classic(e.blob)
      r == e.rust
  IN  StreamCmp("parse", e.py.parse, r)
      \o StreamCmp("stream", e.py.stream, r)
      \o TuplesCmp("tuples_py", e.py.tuples_py, e.rust_triples)
      \o TuplesCmp("tuples_rs", e.py.tuples_rs, e.rust_triples)
      \o CTreeCmp("clvmtree_py", e.py.clvmtree_py, e.rust_triples, r, e.blob)
      \o CTreeCmp("clvmtree_rs", e.py.clvmtree_rs, e.rust_triples, r, e.blob)
      \o (IF Has(r, "panic") THEN << >>
          ELSE (IF d.ok # r.ok THEN << "spec:accept" >> ELSE << >>)
            \o (IF d.ok /\ r.ok /\ (d.tree # TreeOf(r.tree) \/ d.used # r.used) THEN << "spec:tree" >> ELSE << >>)
            \o (IF ~Has(e.rust_triples, "panic") /\ e.rust_triples.ok # d.ok THEN << "spec:accept_triples" >> ELSE << >>))

IntFails(e) ==
  IF e.dir = "to"
  THEN LET want == ZToAtom(Z(e.neg, e.mag)) IN
       (IF e.py # e.rust THEN << "int_to_bytes" >> ELSE << >>)
       \o (IF Has(e, "py_program") /\ e.py_program # e.rust THEN << "Program.int_to_bytes" >> ELSE << >>)
       \o (IF Has(e, "py_to") /\ e.py_to # e.rust THEN << "Program.to" >> ELSE << >>)
       \o (IF e.rust # want THEN << "spec:ZToAtom" >> ELSE << >>)
  ELSE LET want == ZFromAtom(e.bytes) IN
       (IF e.py # e.rust THEN << "int_from_bytes" >> ELSE << >>)
       \o (IF Has(e, "py_as_int") /\ e.py_as_int # e.rust THEN << "as_int" >> ELSE << >>)
       \o (IF Has(e.rust, "neg") /\ << e.rust.neg, e.rust.mag >> # want THEN << "spec:ZFromAtom" >> ELSE << >>)

\* curry (curry_and_treehash.py): (a (q . MOD) ARGS), ARGS = (c (q . arg1) (c (q . arg2) .. 1))
Q(x) == P(A(<< 1 >>), x)
RECURSIVE FixedArgs(_)
FixedArgs(args) ==
  IF args = << >> THEN A(<< 1 >>) ELSE ListOf(<< A(<< 4 >>), Q(Head(args)), FixedArgs(Tail(args)) >>)
CurryTree(m, args) == ListOf(<< A(<< 2 >>), Q(m), FixedArgs(args) >>)

\* (KW (q . X) REST) : a three-element proper list whose second element is a quoted value
Shape(t, kw) ==
  /\ IsPair(t) /\ t.f = A(<< kw >>)
  /\ IsPair(t.r) /\ IsPair(t.r.f) /\ t.r.f.f = A(<< 1 >>)
  /\ IsPair(t.r.r) /\ t.r.r.r = Nil
RECURSIVE UncurryCore(_, _)
UncurryCore(core, acc) ==
  IF core = A(<< 1 >>) THEN [ok |-> TRUE, args |-> acc]
  ELSE IF ~Shape(core, 4) THEN [ok |-> FALSE, args |-> << >>]
  ELSE UncurryCore(core.r.r.f, Append(acc, core.r.f.r))
\* uncurry: [none, mod, args]
Uncurry(t) ==
  IF ~Shape(t, 2) THEN [none |-> TRUE, mod |-> t, args |-> << >>]
  ELSE LET c == UncurryCore(t.r.r.f, << >>)
       IN  IF c.ok THEN [none |-> FALSE, mod |-> t.r.f.r, args |-> c.args] ELSE [none |-> TRUE, mod |-> t, args |-> << >>]

Trees(s) == [i \in 1..Len(s) |-> TreeOf(s[i])]

CurryFails(e) ==
  IF ~e.ok THEN << "exception" >>
  ELSE LET m == TreeOf(e.m)
           args == Trees(e.args)
           want == CurryTree(m, args)
           h == TH(want)
       IN  (IF TreeOf(e.tree) # want THEN << "curry" >> ELSE << >>)
           \o (IF e.curry_hash # h THEN << "curry_hash" >> ELSE << >>)
           \o (IF e.tree_hash # h THEN << "tree_hash" >> ELSE << >>)
           \o (IF e.un_none \/ TreeOf(e.un_mod) # m \/ Trees(e.un_args) # args THEN << "uncurry" >> ELSE << >>)
           \o (IF e.un2_none \/ TreeOf(e.un2_mod) # m \/ Trees(e.un2_args) # args THEN << "uncurry_after_roundtrip" >> ELSE << >>)
           \o (IF Uncurry(want) # [none |-> FALSE, mod |-> m, args |-> args] THEN << "spec:uncurry_inverts_curry" >> ELSE << >>)

UncurryFails(e) ==
  IF ~e.ok THEN << "exception" >>
  ELSE LET u == Uncurry(TreeOf(e.tree))
       IN  IF [none |-> e.none, mod |-> TreeOf(e.mod), args |-> Trees(e.args)] # u THEN << "uncurry" >> ELSE << >>

---------------------------------------------------------------------------
Fails(e) ==
  CASE e.ev = "deser" -> DeserFails(e)
    [] e.ev = "len" -> LenFails(e)
    [] e.ev = "triples" -> TriplesFails(e)
    [] e.ev = "conv" -> ConvFails(e)
    [] e.ev = "pyser" -> PySerFails(e)
    [] e.ev = "pydeser" -> PyDeserFails(e)
    [] e.ev = "int" -> IntFails(e)
    [] e.ev = "curry" -> CurryFails(e)
    [] e.ev = "uncurry" -> UncurryFails(e)
    [] OTHER -> << "unknown event" >>

Init == l = 1
Next == /\ l <= Len(Rec)
        /\ LET f == Fails(Rec[l])
           IN  IF f = << >> THEN TRUE
               ELSE PrintT(<< "MISMATCH", ToJson([line |-> l, ev |-> Rec[l].ev, fails |-> f]) >>)
        /\ l' = l + 1

Done == l = Len(Rec) + 1 => PrintT(<< "TRACE-DONE", ToJson([lines |-> l - 1]) >>)
=============================================================================
