CONSTANT Restricted = {"CANONICAL_INTS", "NO_UNKNOWN_OPS"}
INIT Init
NEXT Next
INVARIANT RestrictionOnlyRemoves
CHECK_DEADLOCK FALSE
