------------------------------- MODULE Alloc -------------------------------
(***************************************************************************)
(* The PROPERTY-level allocator of clvm_rs (src/allocator.rs), i.e. the    *)
(* reference model that C12 / C13 / C14 talk about:                        *)
(*                                                                         *)
(*   "as if every atom were a separately stored byte string"               *)
(*                                                                         *)
(* State: a sequence of nodes (an atom is its bytes, a pair is two node    *)
(* ids), the three public counters atom_count / pair_count / heap_size and *)
(* a stack of checkpoints.  There is no notion of inline small atoms, of   *)
(* byte sharing or of ghost counters here; that is AllocMech.tla.          *)
(*                                                                         *)
(* Node ids are the positions in `nodes` (1-based).  Every successful      *)
(* node-returning call appends exactly one node, also when the real code   *)
(* hands back an existing NodePtr (new_concat of one node, small atoms), so*)
(* the ids coincide with the handle table of the harness.  Ids 1 and 2 are *)
(* nil() and one(), which a fresh allocator accounts for (atom_count 2,    *)
(* heap_size 1).  A node invalidated by a restore becomes Dead (ids are    *)
(* never reused); using a dead node is outside the caller contract.        *)
(*                                                                         *)
(* Every public operation is a function  Apply(lim, s, op)  from a state   *)
(* record and an operation record to [s, st, ret, out]: the next state,    *)
(* the status ("ok" or the EvalErr kind), the id of the returned node (0 = *)
(* none) and the MaybeRestore outcome.  The limits are a parameter because *)
(* the trace specification validates many allocators with different heap   *)
(* limits; the state machine below uses the CONSTANTS.  The failure checks *)
(* are in the order of the code (new_atom / new_small_number: heap before  *)
(* atom count; new_substr / new_concat: atom count first).  A failed       *)
(* operation returns the state unchanged.                                  *)
(*                                                                         *)
(* Operation records (the same shape is used in traces and CASE lines):    *)
(*   [op |-> "new_atom", b]            [op |-> "new_small_number", v]      *)
(*   [op |-> "new_number" | "new_u64" | "new_i64" | "new_malachite_number",*)
(*    neg, mag]                        [op |-> "new_pair", f, r]           *)
(*   [op |-> "new_substr", n, s, e]    [op |-> "new_concat", size, ns]     *)
(*   [op |-> "checkpoint"]             [op |-> "tcheckpoint"]              *)
(*   [op |-> "restore", cp]            [op |-> "trestore", cp]             *)
(*   [op |-> "maybe_restore", cp, n, out]   out = the outcome taken        *)
(*   [op |-> "add_ghost_atom" | "add_ghost_pair" | "remove_ghost_pair", amt]*)
(***************************************************************************)
EXTENDS BigInt

CONSTANTS MaxAtoms,      \* 62 500 000 in the code (MAX_NUM_ATOMS)
          MaxPairs,      \* 62 500 000 in the code (MAX_NUM_PAIRS)
          HeapLimit      \* per allocator (Allocator::new_limited)

VARIABLES nodes, atoms, pairs, heap, cps, res

avars == << nodes, atoms, pairs, heap, cps, res >>

---------------------------------------------------------------------------
(* nodes *)

Atom(b)    == [k |-> "atom", b |-> b,     f |-> 0, r |-> 0]
Pair(f, r) == [k |-> "pair", b |-> << >>, f |-> f, r |-> r]
Dead       ==  [k |-> "dead", b |-> << >>, f |-> 0, r |-> 0]

Two26 == << 0, 0, 0, 4 >>                        \* 2^26
Two63 == << 0, 0, 0, 0, 0, 0, 0, 128 >>          \* 2^63

\* an atom is canonical when it is the minimal two's complement encoding of its value
Canonical(b) == ZToAtom(ZFromAtom(b)) = b

\* C14: the small-integer view of an atom exists exactly when its bytes are the minimal
\* encoding of a value 0 <= v < 2^26; -1 stands for "no small view"
SmallView(b) ==
  IF Len(b) > 4 THEN -1
  ELSE LET z == ZFromAtom(b)
       IN  IF ~z[1] /\ NLt(z[2], Two26) /\ ZToAtom(z) = b THEN NToInt(z[2]) ELSE -1

---------------------------------------------------------------------------
(* state records *)

Fresh == [nodes |-> << Atom(<< >>), Atom(<< 1 >>) >>,     \* nil() and one()
          atoms |-> 2, pairs |-> 0, heap |-> 1, cps |-> << >>]

Lim == [atoms |-> MaxAtoms, pairs |-> MaxPairs, heap |-> HeapLimit]

Live(s, i)     == i \in 1..Len(s.nodes) /\ s.nodes[i].k # "dead"
LiveAtom(s, i) == i \in 1..Len(s.nodes) /\ s.nodes[i].k = "atom"
LiveIds(s)     == {i \in 1..Len(s.nodes) : s.nodes[i].k # "dead"}
LiveAtomIds(s) == {i \in 1..Len(s.nodes) : s.nodes[i].k = "atom"}

Ok(s, ret)  == [s |-> s, st |-> "ok", ret |-> ret, out |-> ""]
Fail(s, e)  == [s |-> s, st |-> e,    ret |-> 0,   out |-> ""]

\* everything created after the checkpoint dies, except `keep` (0 = nothing kept)
Kill(ns, n, keep) == [i \in 1..Len(ns) |-> IF i > n /\ i # keep THEN Dead ELSE ns[i]]

RECURSIVE SumLen(_, _, _)
SumLen(s, ids, i) == IF i > Len(ids) THEN 0 ELSE Len(s.nodes[ids[i]].b) + SumLen(s, ids, i + 1)
RECURSIVE CatBytes(_, _, _)
CatBytes(s, ids, i) == IF i > Len(ids) THEN << >> ELSE s.nodes[ids[i]].b \o CatBytes(s, ids, i + 1)

---------------------------------------------------------------------------
(* the operations *)

\* a new separately stored atom: +1 atom, +Len(b) heap.  Heap is checked first.
AAtom(lim, s, b) ==
  IF Len(b) > lim.heap - s.heap THEN Fail(s, "OutOfMemory")
  ELSE IF s.atoms >= lim.atoms  THEN Fail(s, "TooManyAtoms")
  ELSE Ok([s EXCEPT !.nodes = Append(@, Atom(b)), !.atoms = @ + 1, !.heap = @ + Len(b)],
          Len(s.nodes) + 1)

APair(lim, s, f, r) ==
  IF s.pairs >= lim.pairs THEN Fail(s, "TooManyPairs")
  ELSE Ok([s EXCEPT !.nodes = Append(@, Pair(f, r)), !.pairs = @ + 1], Len(s.nodes) + 1)

\* a substring shares its parent's bytes: +1 atom, heap unchanged (hence no heap check)
ASubstr(lim, s, n, st, en) ==
  IF s.atoms >= lim.atoms THEN Fail(s, "TooManyAtoms")
  ELSE IF s.nodes[n].k = "pair" THEN Fail(s, "InternalError")
  ELSE LET b == s.nodes[n].b
       IN  IF st > Len(b) \/ en > Len(b) \/ en < st THEN Fail(s, "InvalidAllocArg")
           ELSE Ok([s EXCEPT !.nodes = Append(@, Atom(SubSeq(b, st + 1, en))), !.atoms = @ + 1],
                   Len(s.nodes) + 1)

\* a concatenation is a new atom of `size` bytes, also for the 0- and 1-node shortcuts
AConcat(lim, s, size, ids) ==
  IF s.atoms >= lim.atoms THEN Fail(s, "TooManyAtoms")
  ELSE IF size > lim.heap - s.heap THEN Fail(s, "OutOfMemory")
  ELSE IF (\E i \in 1..Len(ids) : s.nodes[ids[i]].k = "pair") \/ SumLen(s, ids, 1) # size
       THEN Fail(s, "InternalError")
  ELSE Ok([s EXCEPT !.nodes = Append(@, Atom(CatBytes(s, ids, 1))), !.atoms = @ + 1, !.heap = @ + size],
          Len(s.nodes) + 1)

ACheckpoint(s, full) ==
  Ok([s EXCEPT !.cps = Append(@, [full |-> full, n |-> Len(s.nodes),
                                  atoms |-> IF full THEN s.atoms ELSE 0,
                                  pairs |-> IF full THEN s.pairs ELSE 0,
                                  heap  |-> IF full THEN s.heap  ELSE 0])], 0)

\* full restore: the counts are reset to the checkpoint
ARestore(s, i) ==
  LET cp == s.cps[i]
  IN  Ok([s EXCEPT !.nodes = Kill(@, cp.n, 0), !.atoms = cp.atoms, !.pairs = cp.pairs,
                   !.heap = cp.heap, !.cps = SubSeq(@, 1, i)], 0)

\* transparent restore: the counts are unchanged
ATRestore(s, i) ==
  LET cp == s.cps[i]
  IN  Ok([s EXCEPT !.nodes = Kill(@, cp.n, 0), !.cps = SubSeq(@, 1, i)], 0)

\* value-preserving restore.  Which outcome is taken is not determined by the property
\* (the code decides by MIN_SAVINGS / CLONE_ATOM_LIMIT / representation); the property is:
\* the counts never change, Aborted changes nothing, NoReplace keeps the node valid with its
\* contents, Replace returns a new atom with the same bytes.  A pair created after the
\* checkpoint cannot be preserved (its children die), so only Aborted is possible for it.
AMaybeRestore(s, i, n, out) ==
  LET cp == s.cps[i]
  IN  IF out = "Aborted" THEN [Ok(s, 0) EXCEPT !.out = out]
      ELSE IF out = "NoReplace" /\ (n <= cp.n \/ s.nodes[n].k = "atom")
        THEN [Ok([s EXCEPT !.nodes = Kill(@, cp.n, n), !.cps = SubSeq(@, 1, i)], 0) EXCEPT !.out = out]
      ELSE IF out = "Replace" /\ n > cp.n /\ s.nodes[n].k = "atom"
        THEN [Ok([s EXCEPT !.nodes = Append(Kill(@, cp.n, 0), Atom(s.nodes[n].b)), !.cps = SubSeq(@, 1, i)],
                 Len(s.nodes) + 1) EXCEPT !.out = out]
      ELSE Fail(s, "IllegalOutcome")

AGhostAtom(lim, s, amt) ==
  IF amt > lim.atoms - s.atoms THEN Fail(s, "TooManyAtoms") ELSE Ok([s EXCEPT !.atoms = @ + amt], 0)
AGhostPair(lim, s, amt) ==
  IF amt > lim.pairs - s.pairs THEN Fail(s, "TooManyPairs") ELSE Ok([s EXCEPT !.pairs = @ + amt], 0)
ARemoveGhostPair(s, amt) == Ok([s EXCEPT !.pairs = @ - amt], 0)

IntOps == {"new_number", "new_u64", "new_i64", "new_malachite_number"}

Apply(lim, s, op) ==
  CASE op.op = "new_atom"          -> AAtom(lim, s, op.b)
    [] op.op = "new_small_number"  -> AAtom(lim, s, ZToAtom(ZI(op.v)))
    [] op.op \in IntOps            -> AAtom(lim, s, ZToAtom(Z(op.neg, op.mag)))   \* canonical minimal encoding
    [] op.op = "new_pair"          -> APair(lim, s, op.f, op.r)
    [] op.op = "new_substr"        -> ASubstr(lim, s, op.n, op.s, op.e)
    [] op.op = "new_concat"        -> AConcat(lim, s, op.size, op.ns)
    [] op.op = "checkpoint"        -> ACheckpoint(s, TRUE)
    [] op.op = "tcheckpoint"       -> ACheckpoint(s, FALSE)
    [] op.op = "restore"           -> ARestore(s, op.cp)
    [] op.op = "trestore"          -> ATRestore(s, op.cp)
    [] op.op = "maybe_restore"     -> AMaybeRestore(s, op.cp, op.n, op.out)
    [] op.op = "add_ghost_atom"    -> AGhostAtom(lim, s, op.amt)
    [] op.op = "add_ghost_pair"    -> AGhostPair(lim, s, op.amt)
    [] op.op = "remove_ghost_pair" -> ARemoveGhostPair(s, op.amt)

\* the caller contract: what a well-behaved client may call (everything else asserts / panics /
\* is undefined in the code and is never generated)
Legal(s, op) ==
  CASE op.op = "new_atom"          -> TRUE
    [] op.op = "new_small_number"  -> op.v >= 0 /\ op.v < 67108864
    [] op.op \in {"new_number", "new_malachite_number"} -> TRUE
    [] op.op = "new_u64"           -> ~op.neg /\ Len(op.mag) <= 8
    [] op.op = "new_i64"           -> IF op.neg THEN NLe(op.mag, Two63) ELSE NLt(op.mag, Two63)
    [] op.op = "new_pair"          -> Live(s, op.f) /\ Live(s, op.r)
    [] op.op = "new_substr"        -> Live(s, op.n) /\ op.s >= 0 /\ op.e >= 0
    [] op.op = "new_concat"        -> /\ op.size >= 0
                                      /\ \A i \in 1..Len(op.ns) : Live(s, op.ns[i])
                                      /\ Len(op.ns) = 1 => LiveAtom(s, op.ns[1])    \* atom_len panics on a pair
    [] op.op \in {"checkpoint", "tcheckpoint"} -> TRUE
    [] op.op = "restore"           -> op.cp \in 1..Len(s.cps) /\ s.cps[op.cp].full
    [] op.op = "trestore"          -> op.cp \in 1..Len(s.cps) /\ ~s.cps[op.cp].full
    [] op.op = "maybe_restore"     -> op.cp \in 1..Len(s.cps) /\ ~s.cps[op.cp].full /\ Live(s, op.n)
    [] op.op \in {"add_ghost_atom", "add_ghost_pair"} -> op.amt >= 0
    [] op.op = "remove_ghost_pair" -> op.amt >= 0 /\ op.amt <= s.pairs

---------------------------------------------------------------------------
(* The declarative accounting law of C12 / C13 for one call, stated on the *)
(* observable counters only: what the call adds when it completes.         *)

NewBytes(s, op) ==          \* bytes of the atom an atom-creating call stores
  CASE op.op = "new_atom"         -> op.b
    [] op.op = "new_small_number" -> ZToAtom(ZI(op.v))
    [] op.op \in IntOps           -> ZToAtom(Z(op.neg, op.mag))

Delta(s, op) ==             \* << atoms, pairs, heap >> added by a completed call
  CASE op.op \in {"new_atom", "new_small_number"} \cup IntOps -> << 1, 0, Len(NewBytes(s, op)) >>
    [] op.op = "new_pair"          -> << 0, 1, 0 >>
    [] op.op = "new_substr"        -> << 1, 0, 0 >>
    [] op.op = "new_concat"        -> << 1, 0, op.size >>
    [] op.op = "add_ghost_atom"    -> << op.amt, 0, 0 >>
    [] op.op = "add_ghost_pair"    -> << 0, op.amt, 0 >>
    [] op.op = "remove_ghost_pair" -> << 0, 0 - op.amt, 0 >>
    [] OTHER                       -> << 0, 0, 0 >>       \* checkpoints; restores are stated separately

\* the cap error a call must produce: "" = none.  When two caps would be exceeded the code's
\* check order decides which one is reported.
CapError(lim, s, op) ==
  LET d  == Delta(s, op)
      ea == s.atoms + d[1] > lim.atoms
      ep == s.pairs + d[2] > lim.pairs
      eh == d[3] > lim.heap - s.heap
  IN  CASE op.op \in {"new_atom", "new_small_number"} \cup IntOps
             -> (IF eh THEN "OutOfMemory" ELSE IF ea THEN "TooManyAtoms" ELSE "")
        [] op.op = "new_concat"
             -> (IF ea THEN "TooManyAtoms" ELSE IF eh THEN "OutOfMemory" ELSE "")
        [] op.op \in {"new_substr", "add_ghost_atom"} -> (IF ea THEN "TooManyAtoms" ELSE "")
        [] op.op \in {"new_pair", "add_ghost_pair"}   -> (IF ep THEN "TooManyPairs" ELSE "")
        [] OTHER -> ""

CapErrors == {"OutOfMemory", "TooManyAtoms", "TooManyPairs"}

---------------------------------------------------------------------------
(* the state machine *)

S == [nodes |-> nodes, atoms |-> atoms, pairs |-> pairs, heap |-> heap, cps |-> cps]

SetS(r) == /\ nodes' = r.s.nodes /\ atoms' = r.s.atoms /\ pairs' = r.s.pairs
           /\ heap' = r.s.heap   /\ cps' = r.s.cps
           /\ res' = [st |-> r.st, ret |-> r.ret, out |-> r.out]

Do(op) == Legal(S, op) /\ SetS(Apply(Lim, S, op))

NewAtom(b)             == Do([op |-> "new_atom", b |-> b])
NewSmallNumber(v)      == Do([op |-> "new_small_number", v |-> v])
NewNumber(z)           == Do([op |-> "new_number", neg |-> z[1], mag |-> z[2]])
NewMalachiteNumber(z)  == Do([op |-> "new_malachite_number", neg |-> z[1], mag |-> z[2]])
NewU64(z)              == Do([op |-> "new_u64", neg |-> z[1], mag |-> z[2]])
NewI64(z)              == Do([op |-> "new_i64", neg |-> z[1], mag |-> z[2]])
NewPair(f, r)          == Do([op |-> "new_pair", f |-> f, r |-> r])
NewSubstr(n, st, en)   == Do([op |-> "new_substr", n |-> n, s |-> st, e |-> en])
NewConcat(size, ids)   == Do([op |-> "new_concat", size |-> size, ns |-> ids])
Checkpoint             == Do([op |-> "checkpoint"])
TransparentCheckpoint  == Do([op |-> "tcheckpoint"])
RestoreCheckpoint(i)   == Do([op |-> "restore", cp |-> i])
RestoreTransparent(i)  == Do([op |-> "trestore", cp |-> i])
MaybeRestoreWithNode(i, n) ==
  \E out \in {"Aborted", "NoReplace", "Replace"} :
     /\ Apply(Lim, S, [op |-> "maybe_restore", cp |-> i, n |-> n, out |-> out]).st = "ok"
     /\ Do([op |-> "maybe_restore", cp |-> i, n |-> n, out |-> out])
AddGhostAtom(k)        == Do([op |-> "add_ghost_atom", amt |-> k])
AddGhostPair(k)        == Do([op |-> "add_ghost_pair", amt |-> k])
RemoveGhostPair(k)     == Do([op |-> "remove_ghost_pair", amt |-> k])

Init == /\ nodes = Fresh.nodes /\ atoms = Fresh.atoms /\ pairs = Fresh.pairs
        /\ heap = Fresh.heap   /\ cps = Fresh.cps
        /\ res = [st |-> "ok", ret |-> 0, out |-> ""]

ByteStrings == Seq(0..255)
Ints        == BOOLEAN \X ByteStrings

Next == \/ \E b \in ByteStrings : NewAtom(b)
        \/ \E v \in 0..67108863 : NewSmallNumber(v)
        \/ \E z \in Ints : NewNumber(z) \/ NewMalachiteNumber(z) \/ NewU64(z) \/ NewI64(z)
        \/ \E f, r \in 1..Len(nodes) : NewPair(f, r)
        \/ \E n \in 1..Len(nodes), st, en \in Nat : NewSubstr(n, st, en)
        \/ \E size \in Nat, ids \in Seq(1..Len(nodes)) : NewConcat(size, ids)
        \/ Checkpoint \/ TransparentCheckpoint
        \/ \E i \in 1..Len(cps) : RestoreCheckpoint(i) \/ RestoreTransparent(i)
        \/ \E i \in 1..Len(cps), n \in 1..Len(nodes) : MaybeRestoreWithNode(i, n)
        \/ \E k \in Nat : AddGhostAtom(k) \/ AddGhostPair(k) \/ RemoveGhostPair(k)

Spec == Init /\ [][Next]_avars

---------------------------------------------------------------------------
(* the properties, at this level true by construction; they are checked on *)
(* the mechanism (MCAlloc) and on the implementation (TraceAlloc, replay)  *)

\* C13: the caps are never exceeded
CapsOk == atoms <= MaxAtoms /\ pairs <= MaxPairs /\ heap <= HeapLimit

\* C13: a failed call leaves contents and counts unchanged
FailedUnchanged == [][res'.st # "ok" => UNCHANGED << nodes, atoms, pairs, heap, cps >>]_avars

\* C14: a node keeps its bytes / children for as long as it is valid, and ids are never reused
Immutable ==
  [][/\ Len(nodes') >= Len(nodes)
     /\ \A i \in 1..Len(nodes) : nodes'[i] = nodes[i] \/ nodes'[i] = Dead]_avars
=============================================================================
