CONSTANTS
  Profile = "ckpt"
  MaxAtoms = 1000
  MaxPairs = 1000
  HeapLimit = 100000
  SubstrOfInlineAtomCopies = FALSE
  MinSavings = 1024
  CloneAtomLimit = 48
INIT MCInit
NEXT MCNext
INVARIANTS InvRefines InvCaps InvStepLaw InvReads
CHECK_DEADLOCK FALSE
