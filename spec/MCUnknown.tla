----------------------------- MODULE MCUnknown -----------------------------
(***************************************************************************)
(* C09, bounded design-level model of the unknown-operator rule.           *)
(*                                                                         *)
(* Function-style check: the opcodes are the initial states, the cases of   *)
(* an opcode are its successors (no further steps):                        *)
(*   opcode     byte strings of length 0..6 over {00,01,3f,40,7f,80,bf,c0, *)
(*              fe,ff} (all of them up to length 2 resp. 3, boundary-      *)
(*              structured ones up to 6: first / middle / last byte)       *)
(*   arguments  lists of up to 3 atoms with lengths from {0,1,2,255,256,   *)
(*              65535} (atoms above 2 bytes are the symbolic atoms         *)
(*              [a |-> <<>>, n |-> len] of Ops.tla; engines/lemmas.py      *)
(*              materialises them for the replay), and lists with a pair   *)
(*   cost model old / NEW_COST_MODEL                                       *)
(*   budget     "huge" = 2^64-1, "below" = base cost - 1                   *)
(* Invariants:                                                             *)
(*   CodeIsPublished  OpUnknown (the code's rule: wrapping product before  *)
(*                    the hard fork) = OpUnknownPublished (exact product)  *)
(*                    whenever the exact product is below 2^64             *)
(*   CornerFree       no case of THIS universe has a product >= 2^64 (the  *)
(*                    overflow corner, finding F4, needs a base >= 2^32:   *)
(*                    ApaUnknown.tla); so the CASE lines below are the     *)
(*                    published rule                                       *)
(*   Dispatch         ChiaDialect::op routes every opcode of the universe  *)
(*                    to op_unknown (none is assigned without a flag)   *)
(*   Below            a budget of base-1 fails with CostExceeded           *)
(*   Classes          structural facts of the rule (reserved / invalid     *)
(*                    prefixes, the 6 ignored bits, cost >= 1, nil result) *)
(* and one CASE line per case in the format of `ops replay`.               *)
(***************************************************************************)
EXTENDS Ops, TLC, Json, IOUtils

VARIABLES ph, vop, vds, vnew, vbk     \* phase "seed" | "case"; opcode bytes, argument descriptors, NEW_COST_MODEL?, budget kind "huge" | "below"
c == [op |-> vop, ds |-> vds, new |-> vnew, bk |-> vbk]

Tier == IF "TIER" \in DOMAIN IOEnv THEN IOEnv.TIER ELSE "quick"
Thorough == Tier = "thorough"

Alpha == {0, 1, 63, 64, 127, 128, 191, 192, 254, 255}
Lens == {0, 1, 2, 255, 256, 65535}
SmallLens == Lens \ {65535}
PairArg == -1                                   \* descriptor of a pair argument

OpsOfLen(n) == [1..n -> Alpha]
OpsUpTo(n) == UNION {OpsOfLen(k) : k \in 0..n}
\* longer opcodes: first byte, all middle bytes, last byte from the alphabet
OpsLong == { [i \in 1..n |-> IF i = 1 THEN x ELSE IF i = n THEN z ELSE y] : n \in 4..6, x \in Alpha, y \in Alpha, z \in Alpha }
\* ... and the multiplier boundary in every byte position of the 4-byte prefix
OpsHot == { [i \in 1..n |-> IF i = n THEN z ELSE IF i = h THEN x ELSE y] :
              n \in 4..5, h \in 1..4, x \in {1, 128, 255}, y \in {0, 255}, z \in {0, 64, 128, 192} }
OpsTiny == { << 0 >>, << 64 >>, << 128 >>, << 192 >>, << 127, 128 >>, << 1, 0, 64 >>,
             << 255, 254, 192 >>, << 0, 0, 255, 128 >> }

ListsUpTo(n, S) == UNION {[1..k -> S] : k \in 0..n}
PairLists == { << PairArg >>, << 1, PairArg >>, << PairArg, 1 >>, << 255, 2, PairArg >>,
               << PairArg, PairArg >>, << 0, PairArg, 256 >> }
RepLists == { << >>, << 0 >>, << 256 >>, << 1, 2 >>, << 255, 256 >>, << 256, 256, 256 >>, << 2, PairArg >> }
HasBig(l) == \E i \in 1..Len(l) : l[i] = 65535
BigLists == IF Thorough THEN {l \in ListsUpTo(3, Lens) : HasBig(l)}
            ELSE {l \in ListsUpTo(3, {0, 256, 65535}) : HasBig(l)}

\* (opcode, argument list) combinations: three blocks
OpsA == IF Thorough THEN OpsUpTo(3) ELSE OpsUpTo(2)          \* x every list of small atoms, and the pair lists
ListsA == ListsUpTo(3, SmallLens) \cup PairLists
OpsB == OpsUpTo(3) \cup OpsLong \cup OpsHot                  \* x representative lists
\* OpsTiny x BigLists                                          (the lists with 65535-byte atoms)

ArgTree(d) == IF d = PairArg THEN P(One, Nil)
              ELSE IF d > 2 THEN [a |-> << >>, n |-> d]
              ELSE A([i \in 1..d |-> 1])
ArgsOf(ds) == ListOf([i \in 1..Len(ds) |-> ArgTree(ds[i])])
FlagsOf(nw) == IF nw THEN {"NEW_COST_MODEL"} ELSE {}

OpValid(op) == ~(op = << >> \/ (Len(op) >= 2 /\ op[1] = 255 /\ op[2] = 255)) /\ Len(op) <= 5
\* base cost under an unlimited budget: [st |-> "ok", cost] or an error
BaseOf(op, ds, nw) == UnknownBase(op, ArgsOf(ds), U64Max, nw)
HasBase(op, ds, nw) == OpValid(op) /\ BaseOf(op, ds, nw).st = "ok"

\* the "below" budget is taken for the blocks where the argument shapes vary (all of them in the thorough tier)
InBelow(o, l) == IF Thorough THEN TRUE
                 ELSE (o \in OpsUpTo(2) /\ l \in ListsA) \/ (o \in OpsTiny /\ l \in BigLists)

\* Initial states are only the opcodes ("seed"); the cases of an opcode are its successors, so that TLC's
\* workers evaluate them in parallel (initial states are processed by a single thread).
Init ==
  /\ ph = "seed"
  /\ vop \in OpsA \cup OpsB \cup OpsTiny
  /\ vds = << >> /\ vnew = FALSE /\ vbk = "huge"

Next ==
  /\ ph = "seed"
  /\ ph' = "case"
  /\ vop' = vop
  /\ \/ vop \in OpsA /\ vds' \in ListsA
     \/ vop \in OpsB /\ vds' \in RepLists
     \/ vop \in OpsTiny /\ vds' \in BigLists
  /\ vnew' \in BOOLEAN
  /\ vbk' \in {"huge", "below"}
  /\ vbk' = "below" => (InBelow(vop, vds') /\ HasBase(vop, vds', vnew'))

---------------------------------------------------------------------------
Mult(op) == NAddI(NFromBE(SubSeq(op, 1, Len(op) - 1)), 1)
MaxOf(x) == IF x.bk = "huge" THEN U64Max ELSE NSub(BaseOf(x.op, x.ds, x.new).cost, << 1 >>)
\* exact product base * (multiplier + 1), when the rule gets that far under an unlimited budget (else 0)
ExactProduct(x) == IF HasBase(x.op, x.ds, x.new) THEN NMul(BaseOf(x.op, x.ds, x.new).cost, Mult(x.op)) ELSE << >>

Code(x) == OpUnknown(x.op, ArgsOf(x.ds), MaxOf(x), FlagsOf(x.new))
Published(x) == OpUnknownPublished(x.op, ArgsOf(x.ds), MaxOf(x), FlagsOf(x.new))
Routed(x) == ChiaOp(x.op, ArgsOf(x.ds), MaxOf(x), FlagsOf(x.new), "default", NoCrypto)

CodeIsPublished == (ph = "case" /\ NFitsU64(ExactProduct(c))) => Code(c) = Published(c)
CornerFree == ph = "case" => NFitsU64(ExactProduct(c))
Dispatch == ph = "case" => Routed(c) = Code(c)
Below == (ph = "case" /\ c.bk = "below") => Code(c) = Err("CostExceeded")

Classes == ph = "case" =>
  LET r == Code(c)
      op == c.op
      \* the same opcode with the 6 ignored bits of the last byte cleared
      op0 == IF op = << >> THEN op ELSE [op EXCEPT ![Len(op)] = (@ \div 64) * 64]
  IN  /\ (op = << >> \/ (Len(op) >= 2 /\ op[1] = 255 /\ op[2] = 255)) => r = Err("Reserved")
      /\ (Len(op) > 5 /\ ~(op[1] = 255 /\ op[2] = 255)) => r = Err("Invalid")
      /\ r.st = "ok" => /\ r.val = Nil
                        /\ r.al = << >>
                        /\ NGe(r.cost, << 1 >>) /\ NLe(r.cost, U32Max)
                        /\ r.cost = ExactProduct(c)
      /\ (c.bk = "huge" /\ HasBase(op, c.ds, c.new) /\ r.st = "err")
            => /\ r.kind = "Invalid"
               /\ NGt(ExactProduct(c), U32Max)
      /\ (c.bk = "huge" /\ OpValid(op) /\ ~HasBase(op, c.ds, c.new))
            => /\ r = Err("InvalidOpArg")
               /\ \E i \in 1..Len(c.ds) : c.ds[i] = PairArg
               /\ op[Len(op)] \div 64 # 0
      /\ (Len(op) # 2 \/ op[1] # 255) => r = OpUnknown(op0, ArgsOf(c.ds), MaxOf(c), FlagsOf(c.new))

ClassOf(x) ==
  LET r == Code(x)
  IN  IF r.st = "ok" THEN "ok-fn" \o ToString(x.op[Len(x.op)] \div 64)
      ELSE IF x.bk = "below" THEN "below" ELSE r.kind

Emit == ph = "case" =>
  LET r == Code(c)
      exp == IF r.st = "ok" THEN [st |-> "ok", cost |-> r.cost, val |-> r.val]
             ELSE [st |-> "err", kind |-> r.kind]
  IN  PrintT(<< "CASE", ToJson([op |-> c.op, args |-> ArgsOf(c.ds),
                                flags |-> IF c.new THEN << "NEW_COST_MODEL" >> ELSE << >>,
                                max |-> MaxOf(c), exp |-> exp, cls |-> ClassOf(c)]) >>)
=============================================================================
