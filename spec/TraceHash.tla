----------------------------- MODULE TraceHash -----------------------------
(***************************************************************************)
(* Trace validation (implementation -> specification) for C22 and C24.     *)
(* One TLC state per trace line; a line that disagrees prints a MISMATCH   *)
(* record naming WHICH implementation (C22) or WHICH clause (C24)          *)
(* disagrees, and validation continues with the next line.                 *)
(*                                                                         *)
(* An observation OBS of a hasher is [h |-> 32 bytes] (or [err |-> ..] /   *)
(* [panic |-> ..] when the implementation failed: always a mismatch).      *)
(*                                                                         *)
(* `hash` event:  tree, and one OBS under each of the keys HashKeys;       *)
(*    triples_nodes (optional): the per-node hashes of parse_triples in    *)
(*    pre-order;  py (OPTIONAL, written by the py engine): the wheel's     *)
(*    sha256_treehash, compared when present.                              *)
(*    Every one must equal TH(tree).                                       *)
(* `intern` event: tree; atoms (Seq(bytes)), pairs (Seq([l, r]) of refs),  *)
(*    root (ref) of the InternedTree (ref: -k atom k, +k pair k, 0 = not   *)
(*    listed); ser_src / ser_int classic serializations of source and      *)
(*    interned tree; th_src / th_int OBS; src_atoms / src_pairs = number   *)
(*    of distinct source nodes.  The C24 clauses are checked by name.      *)
(***************************************************************************)
EXTENDS Intern, Json, IOUtils

Rec == ndJsonDeserialize(IOEnv.TRACE)

VARIABLE l

Has(e, f) == f \in DOMAIN e

HashKeys == << "op_old", "op_new", "costed_old", "costed_new", "cache", "interned", "stream", "triples" >>

ObsIs(e, k, th) == Has(e, k) /\ Has(e[k], "h") /\ e[k].h = th

\* the implementations of a `hash` event that disagree with TH (a sequence of key names)
BadHash(e) ==
  LET ph == PH(TreeOf(e.tree))
      th == ph[1]
  IN  SelectSeq(HashKeys, LAMBDA k : ~ObsIs(e, k, th))
      \o (IF Has(e, "py") /\ ~ObsIs(e, "py", th) THEN << "py" >> ELSE << >>)
      \o (IF Has(e, "triples_nodes") /\ e.triples_nodes # ph THEN << "triples_nodes" >> ELSE << >>)

\* the C24 clauses of an `intern` event that fail (a sequence of clause names)
Clause(name, ok) == IF ok THEN << >> ELSE << name >>

\* Trees of more than LiteralCap nodes use the exact linear formulations of Intern.tla
\* (PairsDistinctFast / PairsMaximalFast) instead of unfolding every interned pair.
LiteralCap == 60

BadIntern(e) ==
  IF Has(e, "err") \/ Has(e, "panic") THEN << "failed" >>
  ELSE
  LET t   == TreeOf(e.tree)
      at  == e.atoms
      pr  == e.pairs
      wf  == WellFormed(at, pr, e.root)
      lit == e.nodes <= LiteralCap
  IN  Clause("ser", e.ser_int = Ser(t) /\ e.ser_int = e.ser_src)
      \o Clause("hash", ObsIs(e, "th_int", TH(t)) /\ e.th_int = e.th_src)
      \o Clause("atoms_distinct", AtomsDistinct(at))
      \o Clause("atoms_count", AtomsMaximal(at, t))
      \o Clause("le_source", Len(at) <= e.src_atoms /\ Len(pr) <= e.src_pairs)
      \* the clauses that read the interned structure need it to be well formed (children
      \* before parents, as InternedTree documents); otherwise "structure" is reported
      \o (IF wf THEN Clause("pairs_distinct", IF lit THEN PairsDistinct(at, pr) ELSE PairsDistinctFast(at, pr))
                     \o Clause("pairs_count", IF lit THEN PairsMaximal(pr, t) ELSE PairsMaximalFast(at, pr, e.root, t))
                     \o Clause("value", SameValue(at, pr, e.root, t))
          ELSE << "structure" >>)

Bad(e) == IF e.ev = "hash" THEN BadHash(e) ELSE IF e.ev = "intern" THEN BadIntern(e) ELSE << "unknown-event" >>

Init == l = 1
Next == /\ l <= Len(Rec)
        /\ LET bad == Bad(Rec[l]) IN
           IF bad = << >> THEN TRUE
           ELSE PrintT(<< "MISMATCH", ToJson([line |-> l, ev |-> Rec[l].ev, bad |-> bad]) >>)
        /\ l' = l + 1

Done == l = Len(Rec) + 1 => PrintT(<< "TRACE-DONE", ToJson([lines |-> l - 1]) >>)
=============================================================================
