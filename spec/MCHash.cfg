INIT Init
NEXT Next
INVARIANT Laws
INVARIANT StepSanity
CHECK_DEADLOCK FALSE
