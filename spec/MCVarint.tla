----------------------------- MODULE MCVarint -----------------------------
(* Bounded model of the varint codec: every byte string of the universe is  *)
(* an initial state; the invariant is the codec laws (C21 at design level)  *)
(* and, as a side effect, one CASE line per state that the Rust harness     *)
(* replays into read_varint / write_varint (spec -> implementation).        *)
EXTENDS Varint, TLC, Json, IOUtils

VARIABLE c          \* [kind |-> "bytes", b |-> byte string] or [kind |-> "val", v |-> Z]

Tier == IF "TIER" \in DOMAIN IOEnv THEN IOEnv.TIER ELSE "quick"

Cont == {0, 1, 63, 64, 127, 128, 191, 192, 254, 255}
Alpha3 == IF Tier = "thorough" THEN {0, 1, 63, 64, 127, 128, 255} ELSE {0, 127, 128, 255}

\* all strings of length <= 2, plus every first byte with boundary continuations up to 4 (thorough: 5) bytes: built per
\* first byte in ByteCases (zero-arity definitions are evaluated by TLC at startup, on one thread)
\* full-width strings: first byte classes x continuation pattern (all equal or one hot)
Wide == { [i \in 1..n |-> IF i = 1 THEN x ELSE IF i = h THEN y ELSE z] :
            n \in 5..9, x \in {0,1,2,3,4,7,8,15,16,31,32,63,64,127,128,129,191,192,193,223,224,
                               239,240,247,248,249,251,252,253,254,255},
            h \in 2..9, y \in Cont, z \in {0, 255} }

\* boundary values  +-2^(7k-1) +- {0,1,2}, k = 1..8, and small ones
Bnd == UNION { { ZAdd(Z(s, NPow2(7 * k - 1)), ZI(d)) : s \in BOOLEAN, d \in -2..2 } : k \in 1..8 }
Vals == Bnd \cup {ZI(i) : i \in -70..70}

\* TLC generates initial states (and checks their invariant) on ONE thread, so the universe hangs below 257 seed
\* states that the workers expand in parallel: seed x < 256 = the byte strings whose first byte is x; seed 256 = the
\* empty string and the values
ByteCases(x) ==
  {[kind |-> "bytes", b |-> b] :
     b \in {<< x >>} \cup {<< x, y >> : y \in 0..255}
           \cup UNION {{<< x >> \o t : t \in [1..(n - 1) -> Alpha3]} : n \in 3..(IF Tier = "thorough" THEN 5 ELSE 4)}
           \cup {w \in Wide : w[1] = x}}
CasesOf(k) ==
  IF k = 256 THEN {[kind |-> "bytes", b |-> << >>]} \cup {[kind |-> "val", v |-> v] : v \in Vals}
  ELSE ByteCases(k)

Init == c \in {[kind |-> "seed", k |-> k] : k \in 0..256}
Next == c.kind = "seed" /\ c' \in CasesOf(c.k)

Emit(r) == PrintT(<< "CASE", ToJson(r) >>)

Laws ==
  IF c.kind = "seed" THEN TRUE
  ELSE IF c.kind = "bytes"
  THEN /\ BytesLaws(c.b)
       /\ LET dl == Decode(c.b, FALSE)  ds == Decode(c.b, TRUE)
          IN  Emit([kind |-> "bytes", b |-> c.b, ok |-> dl.ok, neg |-> dl.val[1], mag |-> dl.val[2],
                    used |-> dl.used, strict_ok |-> ds.ok])
  ELSE /\ ValueLaws(c.v)
       /\ IF InRange(c.v)
          THEN Emit([kind |-> "val", neg |-> c.v[1], mag |-> c.v[2], enc |-> Encode(c.v)])
          ELSE TRUE
=============================================================================
