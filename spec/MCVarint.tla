----------------------------- MODULE MCVarint -----------------------------
(* Bounded model of the varint codec: every byte string of the universe is  *)
(* an initial state; the invariant is the codec laws (C21 at design level)  *)
(* and, as a side effect, one CASE line per state that the Rust harness     *)
(* replays into read_varint / write_varint (spec -> implementation).        *)
EXTENDS Varint, TLC, Json, IOUtils

VARIABLE c          \* [kind |-> "bytes", b |-> byte string] or [kind |-> "val", v |-> Z]

Tier == IF "TIER" \in DOMAIN IOEnv THEN IOEnv.TIER ELSE "quick"

Cont == {0, 1, 63, 64, 127, 128, 191, 192, 254, 255}
Alpha3 == IF Tier = "thorough" THEN {0, 1, 63, 64, 127, 128, 255} ELSE {0, 127, 128, 255}

\* all strings of length <= 2, plus every first byte with boundary continuations up to 8 bytes
Short == {<< >>} \cup {<< x >> : x \in 0..255} \cup {<< x, y >> : x \in 0..255, y \in 0..255}
Long(n) == {<< x >> \o t : x \in 0..255, t \in [1..(n - 1) -> Alpha3]}
Structured == UNION {Long(n) : n \in 3..(IF Tier = "thorough" THEN 5 ELSE 4)}
\* full-width strings: first byte classes x continuation pattern (all equal or one hot)
Wide == { [i \in 1..n |-> IF i = 1 THEN x ELSE IF i = h THEN y ELSE z] :
            n \in 5..9, x \in {0,1,2,3,4,7,8,15,16,31,32,63,64,127,128,129,191,192,193,223,224,
                               239,240,247,248,249,251,252,253,254,255},
            h \in 2..9, y \in Cont, z \in {0, 255} }

\* boundary values  +-2^(7k-1) +- {0,1,2}, k = 1..8, and small ones
Bnd == UNION { { ZAdd(Z(s, NPow2(7 * k - 1)), ZI(d)) : s \in BOOLEAN, d \in -2..2 } : k \in 1..8 }
Vals == Bnd \cup {ZI(i) : i \in -70..70}

Cases == {[kind |-> "bytes", b |-> b] : b \in Short \cup Structured \cup Wide}
           \cup {[kind |-> "val", v |-> v] : v \in Vals}

Init == c \in Cases
Next == UNCHANGED c

Emit(r) == PrintT(<< "CASE", ToJson(r) >>)

Laws ==
  IF c.kind = "bytes"
  THEN /\ BytesLaws(c.b)
       /\ LET dl == Decode(c.b, FALSE)  ds == Decode(c.b, TRUE)
          IN  Emit([kind |-> "bytes", b |-> c.b, ok |-> dl.ok, neg |-> dl.val[1], mag |-> dl.val[2],
                    used |-> dl.used, strict_ok |-> ds.ok])
  ELSE /\ ValueLaws(c.v)
       /\ IF InRange(c.v)
          THEN Emit([kind |-> "val", neg |-> c.v[1], mag |-> c.v[2], enc |-> Encode(c.v)])
          ELSE TRUE
=============================================================================
