---------------------------- MODULE TraceAlloc ----------------------------
(***************************************************************************)
(* Trace validation (implementation -> specification) for C12, C13, C14.   *)
(*                                                                         *)
(* The trace is recorded by harness/src/bin/alloc.rs from real Allocators: *)
(* one event per public call with its arguments (nodes are named by handle *)
(* = position in the harness's table of returned NodePtrs, which is the    *)
(* node id of Alloc.tla), the returned status ("ok" / EvalErr kind /       *)
(* "panic"), atom_count / pair_count / heap_size after the call, and a     *)
(* read-back of the created atom; "eq" events (atom_eq of two handles) and *)
(* "proj" events (what atom() / small_number() / number() / sexp() return  *)
(* for every handle that is still valid).                                  *)
(*                                                                         *)
(* This module steps the PROPERTY model (Alloc!Apply on the variables of   *)
(* Alloc.tla) with every recorded call and compares.  One TLC state per    *)
(* line.  A line that disagrees prints a MISMATCH record with the classes  *)
(* of the disagreement:                                                    *)
(*   C12  a completed call whose counters differ from the model's, or an   *)
(*        impossible maybe_restore outcome                                 *)
(*   C13  a cap exceeded by the observed counters; a status disagreement   *)
(*        involving OutOfMemory / TooManyAtoms / TooManyPairs; a failed    *)
(*        call that changed the counters                                   *)
(*   C14  a read-back (bytes, small view, number, children, atom_eq) that  *)
(*        differs from the contents the node was created with              *)
(*   OTHER   any other status disagreement (not named by the properties)    *)
(*   HARNESS the recorded call is outside the caller contract or the       *)
(*        handle bookkeeping disagrees (a tool error, never a verdict)     *)
(* Validation never stops: when the status agrees the model adopts the     *)
(* observed counters (resynchronisation, e.g. after the known finding F5)  *)
(* and goes on; when the status disagrees the rest of that allocator's     *)
(* history is skipped (counted) and validation resumes at the next "new".  *)
(*                                                                         *)
(* MaxAtoms = MaxPairs = 62 500 000 (cfg).  The heap limit is per          *)
(* allocator (event "new", field hl, a wide number); Allocator::new() has  *)
(* the limit u32::MAX, which does not fit TLC's integers: it is replaced   *)
(* by the constant HeapLimit = 2^31-1 of the cfg (the traces never come    *)
(* near it).                                                               *)
(***************************************************************************)
EXTENDS Alloc, TLC, Json, IOUtils

Rec == ndJsonDeserialize(IOEnv.TRACE)

VARIABLES l,       \* next line
          lim,     \* limits of the current allocator
          sync,    \* FALSE: the model lost the current allocator (status disagreement)
          nsk      \* number of skipped lines

tvars == << avars, l, lim, sync, nsk >>

Has(e, f) == f \in DOMAIN e

HL(e) == IF NFitsInt(e.hl) THEN NToInt(e.hl) ELSE HeapLimit

Mismatch(cls, e, exp, note) ==
  PrintT(<< "MISMATCH", ToJson([line |-> l, cls |-> cls, event |-> e, exp |-> exp, note |-> note]) >>)

NoExp == [st |-> "", atoms |-> 0, pairs |-> 0, heap |-> 0, src |-> << >>]

Keep == UNCHANGED << nodes, atoms, pairs, heap, cps, res >>

\* read-back of an atom (bytes, small view, optionally the number) against its bytes in the model
\* p: record with sn and (optionally) rneg / rmag; pb: the bytes atom() returned
ReadOk(p, pb, b) ==
  /\ pb = b
  /\ p.sn = SmallView(b)
  /\ Has(p, "rmag") => Z(p.rneg, p.rmag) = ZFromAtom(b)
  /\ Has(p, "rmal") => p.rmal              \* malachite_number() returned the same value as number()

---------------------------------------------------------------------------

NewAlloc(e) ==
  /\ nodes' = Fresh.nodes /\ atoms' = Fresh.atoms /\ pairs' = Fresh.pairs /\ heap' = Fresh.heap
  /\ cps' = Fresh.cps /\ res' = [st |-> "ok", ret |-> 0, out |-> ""]
  /\ lim' = [atoms |-> MaxAtoms, pairs |-> MaxPairs, heap |-> HL(e)]
  /\ sync' = TRUE /\ nsk' = nsk
  /\ IF << e.atoms, e.pairs, e.heap >> = << Fresh.atoms, Fresh.pairs, Fresh.heap >> /\ e.st = "ok" THEN TRUE
     ELSE Mismatch(<< "C12" >>, e, [NoExp EXCEPT !.st = "ok", !.atoms = 2, !.heap = 1], "fresh allocator")

Call(e) ==
  IF ~Legal(S, e)
  THEN /\ Mismatch(<< "HARNESS" >>, e, NoExp, "call outside the caller contract of the model")
       /\ Keep /\ sync' = FALSE /\ UNCHANGED << lim, nsk >>
  ELSE
    LET r      == Apply(lim, S, e)
        stOk   == r.st = e.st
        obs    == << e.atoms, e.pairs, e.heap >>
        cntOk  == << r.s.atoms, r.s.pairs, r.s.heap >> = obs
        capOk  == e.atoms <= lim.atoms /\ e.pairs <= lim.pairs /\ e.heap <= lim.heap
        failCh == e.st # "ok" /\ obs # << atoms, pairs, heap >>
        retOk  == stOk => e.ret = r.ret
        rbOk   == (stOk /\ r.ret > 0 /\ Has(e, "rb")) =>
                     /\ r.s.nodes[r.ret].k = "atom"
                     /\ ReadOk(e, e.rb, r.s.nodes[r.ret].b)
        c13    == ~capOk \/ (~stOk /\ (r.st \in CapErrors \/ e.st \in CapErrors)) \/ failCh
        c12    == (stOk /\ e.st = "ok" /\ ~cntOk) \/ (~stOk /\ e.op = "maybe_restore")
        c14    == ~rbOk
        other  == ~stOk /\ ~c13 /\ ~c12
        cls    == (IF c12 THEN << "C12" >> ELSE << >>) \o (IF c13 THEN << "C13" >> ELSE << >>)
                    \o (IF c14 THEN << "C14" >> ELSE << >>) \o (IF other THEN << "OTHER" >> ELSE << >>)
                    \o (IF ~retOk THEN << "HARNESS" >> ELSE << >>)
        src    == IF e.op = "new_substr" /\ nodes[e.n].k = "atom" THEN nodes[e.n].b ELSE << >>
    IN  /\ IF cls = << >> THEN TRUE
           ELSE Mismatch(cls, e, [st |-> r.st, atoms |-> r.s.atoms, pairs |-> r.s.pairs, heap |-> r.s.heap, src |-> src], "")
        /\ IF stOk /\ retOk
           THEN \* take the step; adopt the observed counters (identical unless a mismatch was printed)
                /\ nodes' = r.s.nodes /\ cps' = r.s.cps
                /\ atoms' = e.atoms /\ pairs' = e.pairs /\ heap' = e.heap
                /\ res' = [st |-> r.st, ret |-> r.ret, out |-> r.out]
                /\ sync' = TRUE
           ELSE Keep /\ sync' = FALSE
        /\ UNCHANGED << lim, nsk >>

Eq(e) ==
  /\ IF ~(LiveAtom(S, e.x) /\ LiveAtom(S, e.y))
     THEN Mismatch(<< "HARNESS" >>, e, NoExp, "atom_eq on a node the model does not hold as a valid atom")
     ELSE IF e.r = (nodes[e.x].b = nodes[e.y].b) THEN TRUE
     ELSE Mismatch(<< "C14" >>, e, NoExp, "atom_eq disagrees with byte equality")
  /\ Keep /\ UNCHANGED << lim, sync, nsk >>

\* the handles whose projection disagrees with the model
BadNodes(e) ==
  { k \in 1..Len(nodes) :
      LET p == e.nodes[k]  nd == nodes[k]
      IN  ~ /\ p.k = nd.k
            /\ nd.k = "atom" => ReadOk(p, p.b, nd.b)
            /\ nd.k = "pair" => /\ nodes[nd.f].k # "dead" /\ nodes[nd.r].k # "dead"
                                /\ p.xt = e.nodes[nd.f].t /\ p.yt = e.nodes[nd.r].t }

Proj(e) ==
  /\ IF Len(e.nodes) # Len(nodes) \/ (\E k \in 1..Len(nodes) : (e.nodes[k].k = "dead") # (nodes[k].k = "dead"))
     THEN Mismatch(<< "HARNESS" >>, e, NoExp, "the set of valid handles differs")
     ELSE IF BadNodes(e) = {} THEN TRUE
     ELSE Mismatch(<< "C14" >>, [ev |-> "proj", bad |-> { << k, e.nodes[k], nodes[k] >> : k \in BadNodes(e) }], NoExp,
                   "a valid node no longer reads as it was created")
  /\ Keep /\ UNCHANGED << lim, sync, nsk >>

TInit == /\ nodes = Fresh.nodes /\ atoms = Fresh.atoms /\ pairs = Fresh.pairs /\ heap = Fresh.heap
        /\ cps = Fresh.cps /\ res = [st |-> "ok", ret |-> 0, out |-> ""]
        /\ l = 1 /\ lim = Lim /\ sync = FALSE /\ nsk = 0

TNext ==
  /\ l <= Len(Rec)
  /\ l' = l + 1
  /\ LET e == Rec[l]
     IN  IF e.ev = "new" THEN NewAlloc(e)
         ELSE IF ~sync THEN Keep /\ nsk' = nsk + 1 /\ UNCHANGED << lim, sync >>
         ELSE IF e.ev = "eq" THEN Eq(e)
         ELSE IF e.ev = "proj" THEN Proj(e)
         ELSE Call(e)

Done == l = Len(Rec) + 1 => PrintT(<< "TRACE-DONE", ToJson([lines |-> l - 1, skipped |-> nsk]) >>)
=============================================================================
