------------------------------- MODULE MCOps -------------------------------
(* Bounded, exhaustive enumeration of direct operator calls: every non-        *)
(* cryptographic operator x every argument list of arity 0..3 over a boundary  *)
(* alphabet (limb and sign boundaries, non-canonical encodings, a pair) x both *)
(* cost models x budgets {unlimited, cost-1}.  Each call is one initial state; *)
(* the invariant states the design-level laws of Ops.tla and emits one CASE    *)
(* line with the expected outcome, replayed into ChiaDialect::op.              *)
EXTENDS Ops, TLC, Json, IOUtils, FiniteSets

VARIABLE c

Tier == IF "TIER" \in DOMAIN IOEnv THEN IOEnv.TIER ELSE "quick"

At(b) == [a |-> b]
Core == { At(<<>>), At(<<1>>), At(<<127>>), At(<<0,128>>), At(<<0,255>>), At(<<1,0>>), At(<<127,0>>),
          At(<<255>>), At(<<128>>), At(<<0>>) }
More == { At(<<0,1>>), At(<<255,127>>), At(<<0,255,255>>), At(<<127,255,255>>), At(<<0,128,0,0>>),
          At(<<3,255,255,255>>), At(<<4,0,0,0>>), At(<<127,255,255,255,255,255,255,255>>),
          At(<<0,255,255,255,255,255,255,255,255>>), [f |-> At(<<1>>), r |-> At(<<>>)] }
Wide == Core \cup More
\* long atoms (length-valued results cross a byte boundary at 128 and 256): only as single arguments
LongAtoms == { At([i \in 1..n |-> 1]) : n \in {127, 128, 255, 256} }
Tiny == { At(<<>>), At(<<1>>), At(<<127,0>>), At(<<0,255>>), At(<<255>>), At(<<0>>), [f |-> At(<<1>>), r |-> At(<<>>)] }
A3 == IF Tier = "thorough" THEN Wide ELSE Tiny
A2 == IF Tier = "thorough" THEN Wide ELSE Core \cup { At(<<0,1>>), At(<<3,255,255,255>>), At(<<4,0,0,0>>), [f |-> At(<<1>>), r |-> At(<<>>)] }

OpsAll == {3,4,5,6,7,8,9,10,11,12,13,14,16,17,18,19,20,21,22,23,24,25,26,27,32,33,34,48,60,61,63}
Variadic == {11, 14, 16, 17, 18, 24, 25, 26, 33, 34, 8}

ArgLists(o) ==
  LET l0 == { << >> }
      l1 == { << x >> : x \in Wide \cup LongAtoms }
      l2 == { << x, y >> : x \in A2, y \in A2 }
      l3 == { << x, y, z >> : x \in A3, y \in A3, z \in A3 }
  IN  IF o \in Variadic \/ o \in {3, 12, 60, 48} THEN l0 \cup l1 \cup l2 \cup l3
      ELSE l0 \cup l1 \cup l2 \cup { << x, y, z >> : x \in {At(<<1>>)}, y \in {At(<<>>)}, z \in {At(<<2>>)} }

\* shifts: second argument around byte boundaries and the +-65535 limit
ShiftVals == { At(<<>>), At(<<1>>), At(<<7>>), At(<<8>>), At(<<15>>), At(<<16>>), At(<<255>>), At(<<249>>), At(<<248>>),
               At(<<0>>), At(<<0,8>>), [f |-> At(<<1>>), r |-> At(<<>>)] }
ShiftLists == { << x, y >> : x \in Wide, y \in ShiftVals }
                \cup { << x, y >> : x \in {At(<<1>>), At(<<255>>)}, y \in {At(<<0,255,255>>), At(<<1,0,0>>), At(<<255,0,1>>)} }

FlagSets == { {"ENABLE_SHA256_TREE"}, {"ENABLE_SHA256_TREE", "NEW_COST_MODEL"} }
           \cup (IF Tier = "thorough" THEN { {"ENABLE_SHA256_TREE", "LIMITS", "DISABLE_OP", "CANONICAL_INTS"} } ELSE {})

ArgListsX(o) == IF o \in {22, 23} THEN ArgLists(o) \cup ShiftLists ELSE ArgLists(o)
\* TLC evaluates initial states and their invariants single-threaded: the initial states are one SEED per
\* (operator, flag set); the cases are their successors, expanded and checked by all workers in parallel
Seed(o, fl) == [op |-> o, args |-> Nil, flags |-> fl, seed |-> 1]
Init == c \in { Seed(o, fl) : o \in OpsAll, fl \in FlagSets }
\* level 1 -> level 2: one intermediate state per first argument (args holds that argument); level 2 -> cases
Firsts(o) == { al[1] : al \in { x \in ArgListsX(o) : x # << >> } }
Next == \/ /\ c.seed = 1
           /\ \/ c' = [c EXCEPT !.seed = 0]                                  \* the empty argument list
              \/ c' \in { [c EXCEPT !.seed = 2, !.args = x] : x \in Firsts(c.op) }
        \/ /\ c.seed = 2
           /\ c' \in { [c EXCEPT !.seed = 0, !.args = ListOf(al)] :
                          al \in { x \in ArgListsX(c.op) : x # << >> /\ x[1] = c.args } }

Eval(max) == ChiaOp(<< c.op >>, c.args, max, c.flags, "default", NoCrypto)

Strip(r) == IF r.st = "ok" THEN [st |-> "ok", cost |-> r.cost, val |-> r.val] ELSE r
FlagSeq(fl) == LET S == {"ENABLE_SHA256_TREE", "NEW_COST_MODEL", "LIMITS", "DISABLE_OP", "CANONICAL_INTS"} \cap fl
               IN  CHOOSE s \in [1..Cardinality(S) -> S] : \A i, j \in 1..Cardinality(S) : i # j => s[i] # s[j]
Emit(max, r) == PrintT(<< "CASE", ToJson([op |-> << c.op >>, args |-> c.args, flags |-> FlagSeq(c.flags),
                                           max |-> max, exp |-> Strip(r)]) >>)

\* design-level laws of the operator specification
Laws ==
  c.seed # 0 \/
  LET r == Eval(U64Max)
  IN  /\ r.st \in {"ok", "err", "abstain"}
      /\ r.st = "abstain" \/ Emit(U64Max, r)
      /\ r.st = "ok" =>
           /\ NGt(r.cost, << >>)                                   \* every call costs something
           /\ LET r1 == Eval(r.cost)                               \* budget = cost: same outcome
                  r0 == Eval(NSub(r.cost, << 1 >>))                \* budget = cost - 1: never a different success
              IN  /\ Strip(r1) = Strip(r)
                  /\ r0.st = "err" \/ (r0.st = "ok" /\ Strip(r0) = Strip(r))
                  /\ Emit(NSub(r.cost, << 1 >>), r0)
                  /\ Emit(r.cost, r1)
      \* cost-model independence of results (C11 for operators)
      /\ (r.st = "ok" /\ "NEW_COST_MODEL" \notin c.flags) =>
           LET rn == ChiaOp(<< c.op >>, c.args, U64Max, c.flags \cup {"NEW_COST_MODEL"}, "default", NoCrypto)
           IN  rn.st = "ok" => rn.val = r.val
=============================================================================
