CONSTANTS
  Profile = "caps"
  MaxAtoms = 5
  MaxPairs = 1
  HeapLimit = 4
  SubstrOfInlineAtomCopies = TRUE
  MinSavings = 1024
  CloneAtomLimit = 48
INIT MCInit
NEXT MCNext
INVARIANTS InvCaps
CHECK_DEADLOCK FALSE
