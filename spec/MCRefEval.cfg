INIT Init
NEXT Next
INVARIANT Terminates
INVARIANT Agree
CHECK_DEADLOCK FALSE
