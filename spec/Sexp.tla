------------------------------- MODULE Sexp -------------------------------
(***************************************************************************)
(* CLVM values: an atom is [a |-> byte sequence], a pair is                *)
(* [f |-> value, r |-> value].  This is also the JSON shape of trees in    *)
(* the traces.  Atoms are byte strings; there is no notion of internal     *)
(* representation (inline small integer, heap bytes, substring view) at    *)
(* this level - that is the content of property C03.                       *)
(***************************************************************************)
EXTENDS BigInt

IsAtom(t) == "a" \in DOMAIN t
IsPair(t) == "f" \in DOMAIN t
A(b) == [a |-> b]
P(x, y) == [f |-> x, r |-> y]
Nil == [a |-> << >>]
One == [a |-> << 1 >>]
IsNil(t) == IsAtom(t) /\ t.a = << >>
Bool(b) == IF b THEN One ELSE Nil

\* Trees in traces: JSON readers limit nesting depth, so a deep tree is written in the
\* FLAT form  [t |-> << node, .. >>]  with node = [a |-> bytes] or [p |-> <<i, j>>]
\* (1-based indices of earlier entries; the root is the last entry).  TreeOf accepts both.
RECURSIVE BuildFlat(_, _)
BuildFlat(tab, i) ==
  IF "a" \in DOMAIN tab[i] THEN tab[i]
  ELSE [f |-> BuildFlat(tab, tab[i].p[1]), r |-> BuildFlat(tab, tab[i].p[2])]
TreeOf(j) == IF "t" \in DOMAIN j THEN BuildFlat(j.t, Len(j.t)) ELSE j

\* the items of a (possibly improper) list; the terminator is ignored
RECURSIVE Items(_)
Items(t) == IF IsAtom(t) THEN << >> ELSE << t.f >> \o Items(t.r)
RECURSIVE Terminator(_)
Terminator(t) == IF IsAtom(t) THEN t ELSE Terminator(t.r)
RECURSIVE ListOf(_)
ListOf(s) == IF s = << >> THEN Nil ELSE P(s[1], ListOf(Tail(s)))

\* number of nodes (atoms + pairs) of the fully expanded tree
RECURSIVE TreeSize(_)
TreeSize(t) == IF IsAtom(t) THEN 1 ELSE 1 + TreeSize(t.f) + TreeSize(t.r)

\* the small-integer view of an atom (allocator.small_number): defined exactly when
\* the bytes are the minimal encoding of a value 0 <= v < 2^26
IsCanonicalSmall(b) ==
  \/ b = << >>
  \/ /\ Len(b) <= 4
     /\ b[1] < 128
     /\ ~(Len(b) = 1 /\ b[1] = 0)
     /\ ~(Len(b) >= 2 /\ b[1] = 0 /\ b[2] < 128)
     /\ ~(Len(b) = 4 /\ b[1] > 3)
\* value of such an atom as a TLC integer (< 2^26)
RECURSIVE BEInt(_, _)
BEInt(b, i) == IF i = 0 THEN 0 ELSE b[i] + 256 * BEInt(b, i - 1)
SmallValue(b) == BEInt(b, Len(b))
\* SmallNumber(t) = the small-integer view, or -1
SmallNumber(t) == IF IsAtom(t) /\ IsCanonicalSmall(t.a) THEN SmallValue(t.a) ELSE -1

---------------------------------------------------------------------------
(* Environment path lookup (traverse_path) with its cost.                  *)
(* The path atom is read as a big-endian bit string; leading zero BYTES     *)
(* cost 4 each; below the most significant set bit (a sentinel) the bits    *)
(* are followed from least significant upward: 0 = first, 1 = rest.         *)

RECURSIVE FirstNonZero(_, _)
FirstNonZero(b, i) == IF i > Len(b) THEN i ELSE IF b[i] # 0 THEN i ELSE FirstNonZero(b, i + 1)

\* number of path steps encoded by the bytes from index fnz (first non-zero byte) on
PathSteps(b, fnz) == 8 * (Len(b) - fnz) + (BitsOfDigit(b[fnz]) - 1)
\* k-th step (0-based, least significant first): bit k of the big-endian number
PathBit(b, k) == (b[Len(b) - (k \div 8)] \div Pow2(k % 8)) % 2

RECURSIVE Walk(_, _, _, _)
\* result: [ok |-> BOOLEAN, node |-> value]
Walk(node, b, k, n) ==
  IF k = n THEN [ok |-> TRUE, node |-> node]
  ELSE IF IsAtom(node) THEN [ok |-> FALSE, node |-> node]
  ELSE Walk(IF PathBit(b, k) = 1 THEN node.r ELSE node.f, b, k + 1, n)

\* TraversePath(path bytes, env) = [st |-> "ok", cost |-> Int, val |-> value] | [st |-> "err", kind |-> ..]
TraversePath(b, env) ==
  LET fnz == FirstNonZero(b, 1)                     \* 1-based index, Len+1 if all zero
      base == 40 + (fnz - 1) * 4 + 4
  IN  IF fnz > Len(b) THEN [st |-> "ok", cost |-> base, val |-> Nil]
      ELSE LET n == PathSteps(b, fnz)
               w == Walk(env, b, 0, n)
           IN  IF w.ok THEN [st |-> "ok", cost |-> base + 4 * n, val |-> w.node]
                       ELSE [st |-> "err", kind |-> "PathIntoAtom"]
=============================================================================
