----------------------------- MODULE TraceOps -----------------------------
(* Trace validation of direct operator calls (engine `ops`): every recorded  *)
(* ChiaDialect::op call is re-evaluated by Ops.tla.                          *)
(*   kind "outcome"  : success/failure, cost, value, error kind differ from  *)
(*                     the specification                                     *)
(*   kind "pinned"   : the specification disagrees with a pinned op-tests    *)
(*                     vector (specification fidelity; blocks the check)     *)
(*   kind "same"     : an event flagged same_as_prev differs from the        *)
(*                     previous event of the same case (C06: MALACHITE)      *)
(*   kind "sameval"  : same_val_as_prev and both succeed with different      *)
(*                     values (C11 for operators)                            *)
EXTENDS Ops, TLC, Json, IOUtils

Rec == ndJsonDeserialize(IOEnv.TRACE)

VARIABLES l, nab
Has(e, f) == f \in DOMAIN e
SetOf(s) == {s[i] : i \in 1..Len(s)}

Published == "PUBLISHED" \in DOMAIN IOEnv
\* with PUBLISHED set, unknown operators are decided by the published rule (exact product) instead of the code's
Spec(e) ==
  LET r == ChiaOp(e.op, TreeOf(e.args), e.max, SetOf(e.flags), "default", NoCrypto)
  IN  IF Published /\ "NO_UNKNOWN_OPS" \notin SetOf(e.flags)
         /\ r = OpUnknown(e.op, TreeOf(e.args), e.max, ExtFlags(SetOf(e.flags), "default"))
      THEN OpUnknownPublished(e.op, TreeOf(e.args), e.max, SetOf(e.flags)) ELSE r

Outcome(e) == IF Has(e, "panic") THEN [st |-> "panic"]
              ELSE IF e.ok THEN [st |-> "ok", cost |-> e.cost, val |-> TreeOf(e.val)]
              ELSE [st |-> "err", kind |-> e.kind]

Strip(r) == IF r.st = "ok" THEN [st |-> "ok", cost |-> r.cost, val |-> r.val] ELSE r

PinnedOk(e, r) ==
  ~Has(e, "exp") \/ r.st = "abstain" \/
    IF e.exp.ok THEN r.st = "ok" /\ r.cost = e.exp.cost /\ r.val = TreeOf(e.exp.val)
    ELSE r.st = "err"

Report(kind, e, r) == PrintT(<< "MISMATCH", ToJson([kind |-> kind, line |-> l, case |-> e.case,
                                 op |-> e.op, flags |-> e.flags, max |-> e.max, args |-> e.args,
                                 observed |-> Outcome(e), expected |-> r]) >>)

\* a pure (unprimed) expression: TLC caches LET definitions only in expression context,
\* inside an action-level LET every use re-evaluates the definition
Check(e) ==
  LET r == Spec(e)
      o == Outcome(e)
      c1 == IF r.st = "abstain" \/ Strip(r) = o THEN TRUE ELSE Report("outcome", e, Strip(r))
      c2 == IF PinnedOk(e, r) THEN TRUE ELSE Report("pinned", e, Strip(r))
      c3 == IF Has(e, "same_as_prev") /\ l > 1 /\ Outcome(Rec[l - 1]) # o
              THEN Report("same", e, Outcome(Rec[l - 1])) ELSE TRUE
      c4 == IF Has(e, "same_val_as_prev") /\ l > 1 /\ o.st = "ok" /\ Outcome(Rec[l - 1]).st = "ok"
               /\ Outcome(Rec[l - 1]).val # o.val
              THEN Report("sameval", e, Outcome(Rec[l - 1])) ELSE TRUE
  IN  IF c1 /\ c2 /\ c3 /\ c4 /\ r.st = "abstain" THEN 1 ELSE 0

Init == l = 1 /\ nab = 0
Next == /\ l <= Len(Rec)
        /\ nab' = nab + Check(Rec[l])
        /\ l' = l + 1

Done == l = Len(Rec) + 1 => PrintT(<< "TRACE-DONE", ToJson([lines |-> l - 1, abstained |-> nab]) >>)
=============================================================================
