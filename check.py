#!/usr/bin/env python3
"""Driver: ./check.py <property-id> [--tier quick|thorough] [--seed N]
          ./check.py replay <path>
Exit 0: property held on everything explored (KNOWN-FINDING lines allowed).
Exit 1: a line `VIOLATION property=<id> replay=<path>` was printed.
Exit 2: tool error / timeout (no verdict)."""
import argparse, importlib, json, os, sys, time, traceback

sys.path.insert(0, os.path.dirname(os.path.abspath(__file__)))
from lib import common as C

# property -> engine module (engines/<name>.py must define check(prop, tier, seed) -> Outcome)
ENGINES = {
    "C01": ["run", "ops"], "C02": ["run", "ops"], "C03": "run", "C04": "run", "C05": "run", "C07": "run",
    "C08": "run", "C11": ["run", "ops"], "C23": ["run", "lemmas"], "C25": ["run", "ops"], "C30": "run", "C31": "run",
    "C06": "ops", "C09": ["ops", "lemmas"], "C10": "ops",
    "C12": "alloc", "C13": ["alloc", "run"], "C14": "alloc",
    "C15": "serde", "C16": "serde", "C29": "serde", "C17": "serdebr", "C18": "serdebr",
    "C19": "incremental",
    "C20": "serde2026", "C21": ["varint", "lemmas"],
    "C22": "hash", "C24": "hash",
    "C26": "py", "C27": "py", "C28": "py",
}


def merge(a, b):
    """one property decided by several engines: union of violations, sums of coverage"""
    a.violations += b.violations
    a.drift += b.drift
    for f in ("states", "transitions", "traces", "evaluations", "nontrivial"):
        setattr(a, f, getattr(a, f) + getattr(b, f))
    a.samples = (a.samples + b.samples)[:8]
    a.assumptions = a.assumptions + [x for x in b.assumptions if x not in a.assumptions]
    a.rule = a.rule + " || " + b.rule
    for k, v in b.extra.items():
        a.extra[k if k not in a.extra else k + "_2"] = v
    a.exhaustive = a.exhaustive and b.exhaustive
    return a


def main():
    ap = argparse.ArgumentParser()
    ap.add_argument("prop")
    ap.add_argument("path", nargs="?")
    ap.add_argument("--tier", default=os.environ.get("VERIF_TIER", "quick"))
    ap.add_argument("--seed", type=int, default=int(os.environ.get("VERIF_SEED", "1") or 1))
    a = ap.parse_args()
    t0 = time.time()
    try:
        if a.prop == "replay":
            rp = json.load(open(a.path))
            en = ENGINES[rp["property"]]
            ok = all(importlib.import_module("engines." + n).replay(rp) for n in (en if isinstance(en, list) else [en]))
            print("REPLAY %s: %s" % (a.path, "still fails" if not ok else "passes"))
            sys.exit(0 if ok else 1)
        if a.prop == "selftest":
            # binding demonstration: every engine that defines selftest() corrupts one recorded field / removes one
            # hook event / mutates one specification constant and must see the rejection (written to SELFTEST.json)
            rep, good = {}, True
            for name in sorted({n for v in ENGINES.values() for n in (v if isinstance(v, list) else [v])}):
                eng = importlib.import_module("engines." + name)
                if not hasattr(eng, "selftest"):
                    continue
                r = eng.selftest()
                if isinstance(r, tuple):
                    r = {"ok": bool(r[0]), "report": r[1]}
                elif not isinstance(r, dict):
                    r = {"ok": bool(r)}
                if "ok" not in r:
                    r["ok"] = all(v for v in r.values() if isinstance(v, bool))
                rep[name] = r
                good = good and bool(r.get("ok"))
                print("selftest %-12s %s" % (name, "ok" if r.get("ok") else "FAILED"))
            json.dump(rep, open(os.path.join(os.path.dirname(os.path.abspath(__file__)), "SELFTEST.json"), "w"), indent=1, default=str)
            sys.exit(0 if good else 2)
        if a.prop not in ENGINES:
            print("unknown or not-applicable property", a.prop)
            sys.exit(2)
        tier = a.tier if a.tier in ("quick", "thorough") else "quick"
        names = ENGINES[a.prop] if isinstance(ENGINES[a.prop], list) else [ENGINES[a.prop]]
        out = None
        for name in names:
            eng = importlib.import_module("engines." + name)
            o = eng.check(a.prop, tier, a.seed)
            out = o if out is None else merge(out, o)
    except C.ToolError as ex:
        print("TOOL-ERROR:", str(ex)[:6000])
        sys.exit(2)
    except Exception:
        traceback.print_exc()
        print("TOOL-ERROR: internal exception in the checker")
        sys.exit(2)

    known = C.load_known()
    sigs = {}
    for f in known.get("findings", []):
        if f.get("property") == a.prop or a.prop in f.get("properties", []):
            sigs[f["signature"]] = f
    printed_known = set()
    nviol = 0
    for v in out.violations:
        sig = getattr(v, "signature", None)
        if sig in sigs:
            v.finding = sigs[sig]["id"]
            out.known[v.finding] = out.known.get(v.finding, 0) + 1
            if v.finding not in printed_known:
                printed_known.add(v.finding)
                print("KNOWN-FINDING: property=%s %s [%s] e.g. %s" % (a.prop, sigs[sig]["what"], v.finding, v.desc[:300]))
            continue
        nviol += 1
        if nviol <= 5:
            payload = {"property": a.prop, "desc": v.desc, "signature": sig, "case": v.replay,
                       "tier": tier, "seed": a.seed}
            path = C.write_replay(a.prop, nviol, payload)
            print("VIOLATION property=%s replay=%s  # %s" % (a.prop, path, v.desc[:400]))
    for d in out.drift[:10]:
        print("DRIFT:", d[:400])
    wall = time.time() - t0
    C.write_evidence(out, tier, a.seed, wall)
    print("%s %s: states=%d transitions=%d traces=%d evaluations=%d violations=%d known=%s wall=%.1fs" % (
        a.prop, tier, out.states, out.transitions, out.traces, out.evaluations, nviol, dict(out.known), wall))
    sys.exit(1 if nviol else 0)


if __name__ == "__main__":
    main()
