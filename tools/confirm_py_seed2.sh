#!/bin/bash
# tools/confirm_py_seed.sh <id>: like confirm_seed.sh for seeds whose demonstration is a Python script run against the wheel
id=$1; W=/tmp/seed2-$id; O=/tmp/seed2-$id-out; PKG=/tmp/confirm2-$id-pkg
cd $W || exit 2
export CARGO_TARGET_DIR=$W/target CARGO_NET_OFFLINE=true
build_pkg() {
  cargo build --offline -p clvm_rs --release > /tmp/confirm2-$id-build.log 2>&1 || return 1
  rm -rf $PKG; mkdir -p $PKG/clvm_rs
  cp wheel/python/clvm_rs/*.py wheel/python/clvm_rs/py.typed $PKG/clvm_rs/ 2>/dev/null
  cp $W/target/release/libclvm_rs.so $PKG/clvm_rs/clvm_rs.abi3.so
}
git checkout -q -- . 2>/dev/null; git apply $O/patch.diff || { echo "patch does not apply"; exit 2; }
build_pkg || { echo "$id build failed"; exit 2; }
(cd $O/demo && PYTHONPATH=$PKG python3 demo.py > /tmp/confirm2-$id-with.log 2>&1); with=$?
cargo test --workspace --no-fail-fast --offline > /tmp/confirm2-$id-suite.log 2>&1; suite=$?
git apply -R $O/patch.diff
build_pkg
(cd $O/demo && PYTHONPATH=$PKG python3 demo.py > /tmp/confirm2-$id-without.log 2>&1); without=$?
git apply $O/patch.diff
echo "$id demo_with_change_rc=$with demo_without_change_rc=$without suite_with_change_rc=$suite"
if [ $with -ne 0 ] && [ $without -eq 0 ] && [ $suite -eq 0 ]; then
  D=/verif/seeded/$id-2; mkdir -p $D/demo
  cp $O/patch.diff $D/patch.diff; cp -r $O/demo/. $D/demo/
  python3 - "$id" "$O" "$D" <<'PY'
import json,sys
id,o,d=sys.argv[1:4]
m=json.load(open(o+"/meta.json"))
m["confirmed_by_lead"]={"worktree":"/tmp/seed2-"+id,"commands":["cargo build --offline -p clvm_rs --release; assemble package; PYTHONPATH=<pkg> python3 demo.py (with change: exit != 0)","git apply -R patch.diff; rebuild; demo (exit 0)","cargo test --workspace --no-fail-fast --offline with the change (passes)"],
  "suite_tail":open("/tmp/confirm2-%s-suite.log"%id).read()[-600:]}
json.dump(m,open(d+"/meta.json","w"),indent=1)
PY
  echo "$id stored"
fi
