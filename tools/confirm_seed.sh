#!/bin/bash
# tools/confirm_seed.sh <id>: confirm a seeded change in its scratch worktree /tmp/seed-<id>:
#  demo fails with the change, passes without it; the unedited test suite passes with the change.
# Then stores it under /verif/seeded/<id>/ (patch.diff, demo/, meta.json with what was run here).
id=$1; W=/tmp/seed-$id; O=/tmp/seed-$id-out
cd $W || exit 2
export CARGO_TARGET_DIR=$W/target CARGO_NET_OFFLINE=true
git checkout -q -- . 2>/dev/null; git apply $O/patch.diff || { echo "patch does not apply"; exit 2; }
mkdir -p tests; cp $O/demo/*.rs tests/ 2>/dev/null
demo=$(ls $O/demo/*.rs | head -1 | xargs basename | sed 's/\.rs$//')
cargo test --offline --test $demo > /tmp/confirm-$id-with.log 2>&1; with=$?
git apply -R $O/patch.diff
cargo test --offline --test $demo > /tmp/confirm-$id-without.log 2>&1; without=$?
git apply $O/patch.diff
mv tests/$demo.rs /tmp/confirm-$id-demo.rs
cargo test --workspace --no-fail-fast --offline > /tmp/confirm-$id-suite.log 2>&1; suite=$?
mv /tmp/confirm-$id-demo.rs tests/$demo.rs
echo "$id demo_with_change_rc=$with demo_without_change_rc=$without suite_with_change_rc=$suite"
if [ $with -ne 0 ] && [ $without -eq 0 ] && [ $suite -eq 0 ]; then
  D=/verif/seeded/$id; mkdir -p $D/demo
  cp $O/patch.diff $D/patch.diff; cp -r $O/demo/. $D/demo/
  python3 - "$id" "$O" "$D" <<'PY'
import json,sys
id,o,d=sys.argv[1:4]
m=json.load(open(o+"/meta.json"))
m["confirmed_by_lead"]={"worktree":"/tmp/seed-"+id,"commands":["cargo test --offline --test <demo> (with change: fails)","git apply -R patch.diff; cargo test --offline --test <demo> (passes)","cargo test --workspace --no-fail-fast --offline with the change and the demo moved aside (passes)"],
  "suite_tail":open("/tmp/confirm-%s-suite.log"%id).read()[-600:]}
json.dump(m,open(d+"/meta.json","w"),indent=1)
PY
  echo "$id stored"
fi
