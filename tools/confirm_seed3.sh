#!/bin/bash
# tools/confirm_seed2.sh <id>: as confirm_seed.sh, for the second-round scratch worktrees /tmp/seed3-<id>;
# stores the confirmed change as /verif/seeded/<id>-2/.
id=$1; W=/tmp/seed3-$id; O=/tmp/seed3-$id-out
cd $W || exit 2
export CARGO_TARGET_DIR=$W/target CARGO_NET_OFFLINE=true
git checkout -q -- . 2>/dev/null; git apply $O/patch.diff || { echo "patch does not apply"; exit 2; }
mkdir -p tests; cp $O/demo/*.rs tests/ 2>/dev/null
demo=$(ls $O/demo/*.rs | head -1 | xargs basename | sed 's/\.rs$//')
L=/tmp/confirm3-$id
cargo test --offline --test $demo > $L-with.log 2>&1; with=$?
git apply -R $O/patch.diff
cargo test --offline --test $demo > $L-without.log 2>&1; without=$?
git apply $O/patch.diff
mv tests/$demo.rs $L-demo.rs
cargo test --workspace --no-fail-fast --offline > $L-suite.log 2>&1; suite=$?
mv $L-demo.rs tests/$demo.rs
echo "$id demo_with_change_rc=$with demo_without_change_rc=$without suite_with_change_rc=$suite"
if [ $with -ne 0 ] && [ $without -eq 0 ] && [ $suite -eq 0 ]; then
  D=/verif/seeded/$id-3; mkdir -p $D/demo
  cp $O/patch.diff $D/patch.diff; cp -r $O/demo/. $D/demo/
  python3 - "$id" "$O" "$D" "$L" <<'PY'
import json,sys
id,o,d,l=sys.argv[1:5]
m=json.load(open(o+"/meta.json"))
m["round"]=3
m["confirmed_by_lead"]={"worktree":"/tmp/seed3-"+id,"commands":["cargo test --offline --test <demo> (with change: fails)","git apply -R patch.diff; cargo test --offline --test <demo> (passes)","cargo test --workspace --no-fail-fast --offline with the change and the demo moved aside (passes)"],
  "suite_tail":open(l+"-suite.log").read()[-600:]}
json.dump(m,open(d+"/meta.json","w"),indent=1)
PY
  echo "$id stored"
fi
