#!/bin/bash
# tools/try_patch.sh <patch.diff> <property> [...]: fresh export of /repo HEAD + patch under /tmp/tp-$$, run checks against it
P=$(readlink -f "$1"); shift
D=/tmp/tp-$$; mkdir -p $D
git -C /repo archive HEAD | tar -x -C $D
(cd $D && patch -p1 -s < "$P") || { echo "patch failed"; exit 2; }
/verif/tools/try_seed.sh $D "$@"
rm -rf $D
