#!/bin/bash
# tools/try_seed.sh <repo-dir-with-change-applied> <property> [property...]
# Runs the registered quick checks against a scratch copy of the repository WITHOUT touching /repo,
# the caches or the evidence files (used to try seeded mutants while other work uses /repo).
set -u
REPO_DIR="$1"; shift
M=${TRY_SEED_DIR:-/tmp/mh}
mkdir -p $M/work $M/out
rm -f $M/repo; ln -s "$REPO_DIR" $M/repo
if [ ! -d $M/harness ]; then mkdir -p $M/harness; fi
rsync -a --delete --exclude 'target*' /verif/harness/ $M/harness/
sed -i "s#path = \"/repo\"#path = \"$M/repo\"#; s#path = \"/repo/clvm-fuzzing\"#path = \"$M/repo/clvm-fuzzing\"#" $M/harness/Cargo.toml
cp "$REPO_DIR/Cargo.lock" $M/harness/Cargo.lock
# cargo decides staleness by mtime: force a rebuild of the crate under test when the scratch repo changes
find "$REPO_DIR/src" "$REPO_DIR/clvm-fuzzing/src" "$REPO_DIR/wheel/src" -name "*.rs" -exec touch {} + 2>/dev/null
rc=0
for p in "$@"; do
  echo "=== $p against $REPO_DIR"
  VERIF_REPO=$M/repo VERIF_HARNESS=$M/harness VERIF_WORK=$M/work VERIF_OUT=$M/out /verif/check.py $p --tier quick 2>&1 | grep -E "VIOLATION|KNOWN-FINDING|TOOL-ERROR|quick:|DRIFT" | cut -c1-600 | (head -8; tail -1)
done
