#!/bin/bash
# tools/coverage.sh <property...>: which lines of /repo/src do the quick checks execute?
# Builds the harness with the nightly toolchain and -C instrument-coverage in a scratch copy (/tmp/cov), runs the named
# quick checks through it (caches, evidence and /repo untouched), and writes an llvm-cov report to /tmp/cov/report.txt and
# the uncovered lines per file to /tmp/cov/uncovered/. Diagnostic only; not part of any registered check.
set -u
M=/tmp/cov
mkdir -p $M/work $M/out $M/prof
rsync -a --delete --exclude 'target*' /verif/harness/ $M/harness/
cp /repo/Cargo.lock $M/harness/Cargo.lock
export RUSTUP_TOOLCHAIN=nightly
export RUSTFLAGS="--cfg clvmr_verif --check-cfg cfg(clvmr_verif) -C instrument-coverage"
export LLVM_PROFILE_FILE="$M/prof/p-%4m.profraw"
for p in "$@"; do
  echo "=== $p"
  VERIF_HARNESS=$M/harness VERIF_WORK=$M/work VERIF_OUT=$M/out /verif/check.py $p --tier quick 2>&1 | grep -E "VIOLATION|TOOL-ERROR|quick:" | cut -c1-300
done
T=$(rustc +nightly --print sysroot)/lib/rustlib/x86_64-unknown-linux-gnu/bin
$T/llvm-profdata merge -sparse $M/prof/*.profraw -o $M/all.profdata || exit 2
objs=""
for b in $M/work/bin/*/*; do objs="$objs -object $b"; done
$T/llvm-cov report $objs -instr-profile=$M/all.profdata --ignore-filename-regex='(registry|rustc|harness)' > $M/report.txt 2>$M/report.err
mkdir -p $M/uncovered
$T/llvm-cov show $objs -instr-profile=$M/all.profdata --ignore-filename-regex='(registry|rustc|harness)' --show-line-counts-or-regions --format=text > $M/show.txt 2>>$M/report.err
tail -80 $M/report.txt | cut -c1-200
